"""Shared driver: run a per-value judge over every VSE derivation of every root, in parallel."""
from __future__ import annotations

import json
import zlib
import multiprocessing as mp
import os
import time
import random

from . import impl
from .mm import MM, canon, ref
from .vse import VSE

_STATE = {}


def get_mm():
    if "mm" not in _STATE:
        mm = MM.load(impl.MODEL_PATH)
        _register_and_types(mm)
        _STATE["mm"] = mm
    return _STATE["mm"]


def _register_and_types(mm):
    """`and` types (registration options / params of a method) have a generated class of their own; the class
    is found structurally (its attributes are exactly the merged properties) and becomes a root like the
    message envelopes, so that the value-space checks also cover it."""
    try:
        import attrs
        from .mm import camel_of_attr
        lsp = impl.lsp()
    except Exception:  # noqa: BLE001
        return
    env = mm.envelopes()
    for m in mm.requests + mm.notifications:
        for f in ("params", "registrationOptions"):
            t = m.get(f)
            if isinstance(t, dict) and t.get("kind") == "and":
                props = mm.and_props(t)
                names = {p["name"] for p in props}
                for c in vars(lsp).values():
                    if isinstance(c, type) and attrs.has(c) and c.__name__ not in mm.structures and c.__name__ not in env \
                            and {camel_of_attr(a.name) for a in attrs.fields(c)} == names:
                        env[c.__name__] = {"name": c.__name__, "role": "and", "method": m["method"], "properties": props, "always": ()}
                        break


def root_class(name):
    lsp = impl.lsp()
    return getattr(lsp, name, None)


def leaf_exc(e):
    """Innermost exception of a cattrs exception group: (class name, short message)."""
    seen = 0
    while getattr(e, "exceptions", None) and seen < 50:
        e = e.exceptions[0]
        seen += 1
    return type(e).__name__, str(e).splitlines()[0][:120] if str(e) else ""


def jround(u):
    return json.loads(json.dumps(u))


def structure_roundtrip(name, j):
    conv = impl.converter()
    cls = root_class(name)
    o = conv.structure(j, cls)
    u = jround(conv.unstructure(o, cls))
    return o, u


def values_for_root(vse, name, kmin, kmax):
    """Yield (base, cost, value) - minimal base up to kmin, maximal base up to kmax (kmax<0: skip)."""
    t = ref(name)
    if kmin >= 0:
        for c, v in vse.enum(t, kmin):
            yield "min", c, v
    if kmax >= 0:
        for c, v in vse.enum_max(t, kmax):
            yield "max", c, v


def _task(args):
    judge_mod, judge_name, name, kmin, kmax, opts = args
    import importlib
    judge = getattr(importlib.import_module(judge_mod), judge_name)
    mm = get_mm()
    vse = VSE(mm)
    seen = set()
    evals = distinct_nt = 0
    viols = []
    outcomes = {}
    samples = []
    t0 = time.time()
    cap = opts.get("cap_s")
    capped = False
    last = None
    reduced = None
    lim = opts.get("max_base_n1_limit")
    if lim and kmax >= 2:
        n1 = sum(1 for _ in VSE(mm).enum_max(ref(name), 1))
        if n1 > lim:
            reduced = (name, kmax, 1, n1)
            kmax = 1
    part, nparts = opts.get("part", (0, 1))
    for basept, c, j in values_for_root(vse, name, kmin, kmax):
        cj = canon(j)
        if nparts > 1 and zlib.crc32(cj.encode("utf-8")) % nparts != part:
            continue
        key = hash(cj)
        if key in seen:
            continue
        seen.add(key)
        evals_before = evals
        n, oc, vs = judge(mm, name, j, opts)
        evals += n
        if c >= 1 or basept == "max":
            distinct_nt += 1
        outcomes[oc] = outcomes.get(oc, 0) + 1
        for v in vs:
            v.replay.setdefault("base", basept)
            v.replay.setdefault("cost", c)
            viols.append(v)
        if len(samples) < 1:
            samples.append({"root": name, "base": basept, "cost": c, "value": j, "outcome": oc})
        last = {"root": name, "base": basept, "cost": c, "value": j, "outcome": oc}
        if cap and (evals & 255) == 0 and time.time() - t0 > cap:
            capped = True
            break
    if last is not None and len(canon(last["value"])) < 2000:
        samples.append(last)
    # collapse violations per signature inside the worker
    bysig = {}
    for v in viols:
        old = bysig.get(v.sig)
        if old is None:
            bysig[v.sig] = v
        elif v.size < old.size:
            v.count += old.count
            bysig[v.sig] = v
        else:
            old.count += v.count
    return {
        "root": name, "evals": evals, "values": len(seen), "distinct_nt": distinct_nt,
        "states": vse.states, "transitions": vse.transitions, "viols": list(bysig.values()),
        "outcomes": outcomes, "samples": samples, "capped": capped, "wall": time.time() - t0, "reduced": reduced,
    }


def explore_roots(ctx, judge, roots, kmin, kmax, opts=None, big_first=None):
    """Run `judge(mm, root, j, opts) -> (n_executions, outcome_class, [Violation])` on every
    derivation of every root.  Returns aggregated coverage dict and violations."""
    opts = dict(opts or {})
    impl.lsp()
    impl.converter()                   # resolve forward references once, before forking
    get_mm()
    # big roots are split into parts (each part enumerates the root completely but judges only the values
    # whose canonical form falls into its residue class), so one huge root does not serialise the run
    tasks = []
    sizes = {}
    probe = VSE(get_mm())
    for name in roots:
        n1 = 0
        for _ in probe.enum(ref(name), 1):
            n1 += 1
        sizes[name] = n1
        nparts = 1
        if max(kmin, kmax) >= 2 and n1 > 120:
            nparts = 8 if n1 > 300 else 4
        for part in range(nparts):
            o = dict(opts)
            o["part"] = (part, nparts)
            tasks.append((judge.__module__, judge.__name__, name, kmin, kmax, o))
    rnd = random.Random(ctx.seed)
    rnd.shuffle(tasks)                 # seed only permutes work distribution
    tasks.sort(key=lambda a: -sizes.get(a[2], 0))      # big roots first
    agg = {"evals": 0, "values": 0, "distinct_nt": 0, "states": 0, "transitions": 0,
           "outcomes": {}, "samples": [], "capped": [], "roots": 0, "per_root_max": ("", 0), "slowest": [], "reduced": []}
    viols = []
    if ctx.workers > 1 and len(tasks) > 1:
        with mp.get_context("fork").Pool(ctx.workers) as pool:
            results = list(pool.imap_unordered(_task, tasks, chunksize=1))
    else:
        results = [_task(t) for t in tasks]
    results.sort(key=lambda r: r["root"])
    seen_roots = set()
    for r in results:
        first_part = r["root"] not in seen_roots
        seen_roots.add(r["root"])
        if first_part:
            agg["roots"] += 1
        for k in ("evals", "values", "distinct_nt"):
            agg[k] += r[k]
        if first_part:
            for k in ("states", "transitions"):      # every part walks the same search tree: count it once
                agg[k] += r[k]
        for oc, n in r["outcomes"].items():
            agg["outcomes"][oc] = agg["outcomes"].get(oc, 0) + n
        if r["capped"]:
            agg["capped"].append(r["root"])
        if r["reduced"]:
            agg["reduced"].append(r["reduced"])
        if r["values"] > agg["per_root_max"][1]:
            agg["per_root_max"] = (r["root"], r["values"])
        viols += r["viols"]
    agg["slowest"] = [(r["root"], round(r["wall"], 1), r["values"]) for r in sorted(results, key=lambda r: -r["wall"])[:8]]
    # samples: first/last of three roots, seed-independent choice
    for r in results[:2] + results[-1:]:
        agg["samples"] += r["samples"]
    return agg, viols


def localize(mm, name, j, violates):
    """Shallowest-to-deepest descent: find the innermost named declaration (structure / alias
    reached through properties of `name`) whose value inside j still violates on its own.
    `violates(root_name, value) -> bool`.  Returns [(site, node)] - one entry per culprit property
    of the innermost violating declaration (each node is the minimal value plus that property)."""
    site, node = name, j
    depth = 0
    while depth < 12:
        depth += 1
        found = None
        for child_name, child_val, label in _named_children(mm, site, node):
            try:
                if violates(child_name, child_val):
                    found = (child_name, child_val)
                    break
            except Exception:
                continue
        if not found:
            break
        site, node = found
    # property inside the site
    props = mm.props_of(ref(site)) if (site in mm.structures or site in mm.envelopes()) else None
    if props and isinstance(node, dict):
        vse = VSE(mm)
        minimal = vse.minimal(ref(site))
        culprits = []
        for p in props:
            if p["name"] in node:
                trial = dict(minimal) if isinstance(minimal, dict) else {}
                trial[p["name"]] = node[p["name"]]
                try:
                    if violates(site, trial):
                        culprits.append((site + "." + p["name"], trial))
                except Exception:
                    pass
        if culprits:
            return culprits
    return [(site, node)]


def _named_children(mm, name, node):
    """(declaration name, value, label) for values inside `node` (read as `name`) that are
    instances of a named structure/alias declaration, nearest first."""
    out = []
    if name in mm.aliases:
        t = mm.aliases[name]["type"]
        _collect(mm, node, t, out, "")
        return out
    props = mm.props_of(ref(name)) if (name in mm.structures or name in mm.envelopes()) else None
    if props is None or not isinstance(node, dict):
        return out
    for p in props:
        if p["name"] in node:
            _collect(mm, node[p["name"]], p["type"], out, p["name"])
    return out


def _collect(mm, v, t, out, label, depth=0):
    if depth > 6:
        return
    k = t["kind"]
    if k == "reference":
        n = t["name"]
        if n in mm.structures:
            if mm.valid(v, t, False):
                out.append((n, v, label))
        elif n in mm.aliases and n not in ("LSPAny", "LSPObject", "LSPArray"):
            if mm.valid(v, t, False):
                out.append((n, v, label))
    elif k == "or":
        for it in t["items"]:
            if mm.valid(v, it, True):
                _collect(mm, v, it, out, label, depth + 1)
    elif k == "array" and isinstance(v, list):
        for x in v:
            _collect(mm, x, t["element"], out, label + "[]", depth + 1)
        # the array as a whole cannot be a named root; nothing to add
    elif k == "map" and isinstance(v, dict):
        for x in v.values():
            _collect(mm, x, t["value"], out, label + "{}", depth + 1)
    elif k == "tuple" and isinstance(v, list):
        for x, it in zip(v, t["items"]):
            _collect(mm, x, it, out, label, depth + 1)
