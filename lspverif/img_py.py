"""IMG-PY: the Python package as a graph (classes -> attrs fields, enums, aliases, tables) and MM's
documented type mapping expressed as typing objects (Appendix B)."""
from __future__ import annotations

import collections.abc
import typing
from typing import Any, Dict, Optional, Sequence, Tuple, Union

import attrs

from . import impl
from .mm import camel_of_attr, admits_null, ANY_ALIASES


def resolve(t, lsp, depth=0):
    """Resolve ForwardRef / str inside typing objects against the package namespace."""
    if depth > 20:
        return t
    if t is None:
        return type(None)
    if isinstance(t, str):
        return resolve(getattr(lsp, t), lsp, depth + 1)
    if isinstance(t, typing.ForwardRef):
        return resolve(getattr(lsp, t.__forward_arg__), lsp, depth + 1)
    o = typing.get_origin(t)
    if o is None:
        return t
    args = tuple(resolve(a, lsp, depth + 1) for a in typing.get_args(t))
    if o is typing.Union:
        return Union[args]
    if o is collections.abc.Sequence:
        return Sequence[args[0]]
    if o is dict:
        return Dict[args]
    if o is tuple:
        return Tuple[args]
    return t


class Unmappable(Exception):
    pass


BASE_PY = {"decimal": float, "boolean": bool, "integer": int, "uinteger": int, "string": str,
           "DocumentUri": str, "URI": str, "Uri": str, "RegExp": str, "null": type(None)}


def find_class_by_wire_names(ann, names, depth=0):
    if depth > 8:
        return None
    if isinstance(ann, type) and attrs.has(ann):
        if {camel_of_attr(a.name) for a in attrs.fields(ann)} == set(names):
            return ann
        return None
    for a in typing.get_args(ann) or ():
        r = find_class_by_wire_names(a, names, depth + 1)
        if r is not None:
            return r
    return None


def py_type(mm, t, lsp, got=None, literals=None):
    """MM's mapping of a metamodel type to a typing object.  `got` is the artefact annotation at the
    same position, used only to resolve invented names of anonymous literal classes structurally;
    resolved (class, literal type) pairs are appended to `literals`."""
    k = t["kind"]
    if k == "base":
        if t["name"] not in BASE_PY:
            raise Unmappable("base " + t["name"])
        return BASE_PY[t["name"]]
    if k == "reference":
        n = t["name"]
        obj = getattr(lsp, n, None)
        if obj is None:
            raise Unmappable("no definition named " + n)
        if n in mm.enums and mm.is_open_enum(n):
            return Union[obj, str if mm.enum_base(n) == "string" else int]
        return resolve(obj, lsp)
    if k == "array":
        return Sequence[py_type(mm, t["element"], lsp, got, literals)]
    if k == "map":
        return Dict[py_type(mm, t["key"], lsp, got, literals), py_type(mm, t["value"], lsp, got, literals)]
    if k == "or":
        return Union[tuple(py_type(mm, i, lsp, got, literals) for i in t["items"])]
    if k == "tuple":
        return Tuple[tuple(py_type(mm, i, lsp, got, literals) for i in t["items"])]
    if k == "stringLiteral":
        return str
    if k == "literal":
        props = t["value"].get("properties", [])
        if not props:
            return Any
        cls = find_class_by_wire_names(got, [p["name"] for p in props]) if got is not None else None
        if cls is None:
            raise Unmappable("no generated class with the properties of the anonymous literal %s" % [p["name"] for p in props])
        if literals is not None:
            literals.append((cls, t))
        return cls
    raise Unmappable(k)


def expected_annotation(mm, p, lsp, got=None, literals=None):
    exp = py_type(mm, p["type"], lsp, got, literals)
    if p.get("optional") or admits_null(p["type"]):
        exp = Optional[exp]
    return exp


def same_type(a, b):
    try:
        return a == b
    except Exception:  # noqa: BLE001
        return False
