"""SCHED - stateless, preemption-bounded schedule explorer for real threads running the real
get_converter (DESIGN 2.5).  Cooperative scheduling through sys.settrace line events and a
per-thread semaphore baton; iterative context bounding over the recorded choice sequence."""
from __future__ import annotations

import ast
import os
import sys
import threading
import types as pytypes

import attrs

from . import impl

_LOCK_TYPES = (type(threading.Lock()), type(threading.RLock()))


HANG_TIMEOUT = 60


class Deadlock(Exception):
    pass


class ReplayDivergence(Exception):
    pass


# --------------------------------------------------------------------------------------------------
# which code is a scheduling point

def package_files():
    pkg = os.path.realpath(os.path.join(impl.PY_PKG, "lsprotocol"))
    out = []
    for f in sorted(os.listdir(pkg)):
        if f.endswith(".py") and f != "types.py":
            out.append(os.path.join(pkg, f))
    return pkg, out


def converter_local_functions(path):
    """AST audit: top-level functions of a package module that cannot touch state shared between
    converters: no global/nonlocal statement, no store to an attribute of an imported module, no load
    of a module-level variable of their own module, no mention of the type registry."""
    src = open(path, encoding="utf-8").read()
    tree = ast.parse(src)
    module_vars = set()
    imported = set()
    for node in tree.body:
        if isinstance(node, (ast.Import, ast.ImportFrom)):
            for a in node.names:
                imported.add((a.asname or a.name).split(".")[0])
        elif isinstance(node, ast.Assign):
            for t in node.targets:
                for n in ast.walk(t):
                    if isinstance(n, ast.Name):
                        module_vars.add(n.id)
        elif isinstance(node, (ast.AnnAssign, ast.AugAssign)) and isinstance(node.target, ast.Name):
            module_vars.add(node.target.id)
    # aliases of immutable things (e.g. LSPAny = lsp_types.LSPAny, OptionalPrimitive = Optional[...]) are
    # module variables too: a function reading them is still local if they are never rebound; a name
    # is "shared mutable" if it is rebound through `global` anywhere or bound to a display/call
    rebound = set()
    mutable = set()
    for node in ast.walk(tree):
        if isinstance(node, ast.Global):
            rebound.update(node.names)
    for node in tree.body:
        if isinstance(node, ast.Assign) and isinstance(node.value, (ast.Dict, ast.List, ast.Set, ast.ListComp, ast.DictComp, ast.SetComp)):
            for t in node.targets:
                if isinstance(t, ast.Name):
                    mutable.add(t.id)
        if isinstance(node, ast.Assign) and isinstance(node.value, ast.Call):
            fn = node.value.func
            name = fn.id if isinstance(fn, ast.Name) else fn.attr if isinstance(fn, ast.Attribute) else ""
            if name in ("dict", "list", "set", "defaultdict", "OrderedDict", "WeakKeyDictionary", "WeakValueDictionary", "Lock", "RLock", "local"):
                for t in node.targets:
                    if isinstance(t, ast.Name):
                        mutable.add(t.id)
    shared = rebound | mutable
    local = {}
    for node in tree.body:
        if not isinstance(node, ast.FunctionDef):
            continue
        ok = True
        why = ""
        for n in ast.walk(node):
            if isinstance(n, (ast.Global, ast.Nonlocal)):
                ok, why = False, "global/nonlocal statement"
            elif isinstance(n, ast.Attribute) and isinstance(n.ctx, (ast.Store, ast.Del)) and isinstance(n.value, ast.Name) and n.value.id in imported:
                ok, why = False, "stores to attribute of module %s" % n.value.id
            elif isinstance(n, ast.Name) and n.id in shared:
                ok, why = False, "uses shared module-level name %s" % n.id
            elif isinstance(n, ast.Attribute) and n.attr == "ALL_TYPES_MAP":
                ok, why = False, "touches the type registry"
            elif isinstance(n, ast.Call) and isinstance(n.func, ast.Attribute) and n.func.attr in ("resolve_types", "cache", "lru_cache"):
                ok, why = False, "calls %s" % n.func.attr
            if not ok:
                break
        local[node.name] = (ok, why, node.lineno, node.end_lineno)
    return local


_MUTATORS = {"append", "add", "update", "setdefault", "pop", "popitem", "clear", "extend", "insert", "remove", "discard", "sort",
             "reverse", "__setitem__", "__delitem__", "appendleft", "move_to_end", "cache_clear"}


def state_writing_functions(path):
    """AST audit of the generated module (types.py is excluded from scheduling wholesale because its helper
    functions only *read* module tables): line ranges of functions / methods that WRITE module-level state -
    a `global` statement, a store or delete through a subscript / attribute of a module-level name (or of a
    local alias of one), a mutator method called on one, or a functools cache decorator.  Their lines become
    scheduling points."""
    try:
        tree = ast.parse(open(path, encoding="utf-8").read())
    except (OSError, SyntaxError):
        return []
    module_vars = set()
    for node in tree.body:
        if isinstance(node, ast.Assign):
            for t in node.targets:
                for n in ast.walk(t):
                    if isinstance(n, ast.Name):
                        module_vars.add(n.id)
        elif isinstance(node, (ast.AnnAssign, ast.AugAssign)) and isinstance(node.target, ast.Name):
            module_vars.add(node.target.id)
    out = []

    def base_name(n):
        while isinstance(n, (ast.Subscript, ast.Attribute, ast.Call)):
            n = n.func if isinstance(n, ast.Call) else n.value
        return n.id if isinstance(n, ast.Name) else None

    def writes(fn):
        shared = set(module_vars)
        params = {a.arg for a in fn.args.args + fn.args.kwonlyargs}
        shared -= params
        for n in ast.walk(fn):
            if isinstance(n, ast.Assign) and isinstance(n.value, (ast.Name, ast.Subscript, ast.Attribute, ast.Call)) and base_name(n.value) in shared:
                for t in n.targets:
                    if isinstance(t, ast.Name):
                        shared.add(t.id)           # local alias of (a part of) module state
        for d in fn.decorator_list:
            txt = ast.dump(d)
            if "lru_cache" in txt or "'cache'" in txt or "cached_property" in txt:
                return "cache decorator"
        for n in ast.walk(fn):
            if isinstance(n, (ast.Global, ast.Nonlocal)):
                return "global statement"
            if isinstance(n, (ast.Subscript, ast.Attribute)) and isinstance(n.ctx, (ast.Store, ast.Del)) and base_name(n) in shared:
                return "stores through %s" % base_name(n)
            if isinstance(n, ast.Call) and isinstance(n.func, ast.Attribute) and n.func.attr in _MUTATORS and base_name(n.func.value) in shared:
                return "calls %s on %s" % (n.func.attr, base_name(n.func.value))
        return None

    for node in ast.walk(tree):
        if isinstance(node, (ast.FunctionDef, ast.AsyncFunctionDef)):
            why = writes(node)
            if why:
                out.append((node.lineno, node.end_lineno, node.name, why))
    return out


# --------------------------------------------------------------------------------------------------
class CoopLock:
    """Replacement for threading.Lock/RLock found in the package: acquire is a scheduling point."""

    def __init__(self, sched_ref, reentrant, name):
        self._s = sched_ref
        self.reentrant = reentrant
        self.name = name
        self.owner = None
        self.count = 0

    def acquire(self, blocking=True, timeout=-1):
        s = self._s[0]
        if s is None:
            return True
        tid = s.current_tid()
        s.point(tid, ("lock.acquire", self.name))
        while True:
            if self.owner is None or (self.reentrant and self.owner == tid):
                self.owner = tid
                self.count += 1
                return True
            if not blocking:
                return False
            s.block(tid, self)

    def release(self):
        s = self._s[0]
        if s is None:
            return
        self.count -= 1
        if self.count <= 0:
            self.owner = None
            self.count = 0
            s.unblock(self)

    __enter__ = acquire

    def __exit__(self, *a):
        self.release()

    def locked(self):
        return self.owner is not None


_REAL_LOCK, _REAL_RLOCK = threading.Lock, threading.RLock


def install_lock_factory(pkg_dir, sched_ref, created):
    """From now on every threading.Lock()/RLock() *created by code of the package* (module level, in an
    instance, at import or later; `import threading` and `from threading import Lock` alike) is a CoopLock.
    Locks created by any other code (threading.Condition, attrs, cattrs ...) stay real."""
    pkg_dir = os.path.realpath(pkg_dir) + os.sep

    def from_package():
        f = sys._getframe(2)
        try:
            return os.path.realpath(f.f_code.co_filename).startswith(pkg_dir), "%s:%d" % (os.path.basename(f.f_code.co_filename), f.f_lineno)
        except Exception:  # noqa: BLE001
            return False, ""

    def lock():
        mine, where = from_package()
        if not mine:
            return _REAL_LOCK()
        cl = CoopLock(sched_ref, False, "Lock@" + where)
        created.append(cl)
        return cl

    def rlock():
        mine, where = from_package()
        if not mine:
            return _REAL_RLOCK()
        cl = CoopLock(sched_ref, True, "RLock@" + where)
        created.append(cl)
        return cl

    threading.Lock, threading.RLock = lock, rlock


class Sched:
    def __init__(self, n, prefix, is_point):
        self.n = n
        self.sems = [threading.Semaphore(0) for _ in range(n)]
        self.state = ["ready"] * n          # ready | blocked | done
        self.blocked_on = [None] * n
        self.prefix = list(prefix)
        self.trace = []                     # chosen index at each point
        self.points = []                    # (tid, where, n_options, is_preemption_if_nonzero)
        self.errors = [None] * n
        self.results = [None] * n
        self.main = threading.Semaphore(0)
        self.is_point = is_point
        self.idents = {}
        self.deadlock = False
        self.hang = False
        self.max_points = 200000

    # -- identity
    def current_tid(self):
        return self.idents.get(threading.get_ident())

    # -- tracing
    def tracer(self, tid):
        def tr(frame, event, arg):
            r = self.is_point(frame.f_code)
            if r is None:
                return None         # do not trace this frame at all
            if r and event == "line":
                self.point(tid, (frame.f_code.co_name, frame.f_lineno))
            return tr
        return tr

    def enabled(self):
        return [i for i in range(self.n) if self.state[i] == "ready"]

    def _choose(self, tid, where, order, preemptive):
        i = len(self.trace)
        if i >= self.max_points:
            raise RuntimeError("horizon exceeded: more than %d scheduling points" % self.max_points)
        idx = self.prefix[i] if i < len(self.prefix) else 0
        if idx >= len(order):
            raise ReplayDivergence("choice %d of %d at point %d %r" % (idx, len(order), i, where))
        self.trace.append(idx)
        self.points.append((tid, where, len(order), preemptive))
        return order[idx]

    def point(self, tid, where):
        """Scheduling point of a running thread: keep running (0) or preempt in favour of another."""
        en = self.enabled()
        order = [tid] + [i for i in en if i != tid]
        nxt = self._choose(tid, where, order, True)
        if nxt != tid:
            self.sems[nxt].release()
            self.sems[tid].acquire()
            if self.deadlock:
                raise Deadlock()

    def block(self, tid, lock):
        self.state[tid] = "blocked"
        self.blocked_on[tid] = lock
        en = self.enabled()
        if not en:
            self.deadlock = True
            for i in range(self.n):
                if i != tid and self.state[i] == "blocked":
                    self.sems[i].release()
            raise Deadlock()
        nxt = self._choose(tid, ("blocked", lock.name), en, False)
        self.sems[nxt].release()
        self.sems[tid].acquire()
        if self.deadlock:
            raise Deadlock()

    def unblock(self, lock):
        for i in range(self.n):
            if self.state[i] == "blocked" and self.blocked_on[i] is lock:
                self.state[i] = "ready"
                self.blocked_on[i] = None

    def finish(self, tid):
        self.state[tid] = "done"
        en = self.enabled()
        if en:
            nxt = self._choose(tid, ("finished",), en, False) if len(en) > 1 else en[0]
            self.sems[nxt].release()
        else:
            blocked = [i for i in range(self.n) if self.state[i] == "blocked"]
            if blocked:
                self.deadlock = True
                for i in blocked:
                    self.sems[i].release()
            else:
                self.main.release()

    def run(self, bodies):
        ths = []
        done_count = [0]
        lock = threading.Lock()

        for i, b in enumerate(bodies):
            def target(i=i, b=b):
                self.idents[threading.get_ident()] = i
                self.sems[i].acquire()
                sys.settrace(self.tracer(i))
                try:
                    self.results[i] = b()
                except Deadlock:
                    self.errors[i] = "Deadlock"
                except ReplayDivergence:
                    self.errors[i] = "ReplayDivergence"
                    raise
                except BaseException as e:  # noqa: BLE001
                    tb = e.__traceback__
                    last = None
                    while tb is not None:
                        fn = tb.tb_frame.f_code.co_filename
                        if "lsprotocol" in fn:
                            last = (os.path.basename(fn), tb.tb_frame.f_code.co_name)
                        tb = tb.tb_next
                    self.errors[i] = (type(e).__name__, str(e)[:160], last)
                finally:
                    sys.settrace(None)
                    if self.deadlock:
                        self.state[i] = "done"
                        with lock:
                            done_count[0] += 1
                            if all(s == "done" for s in self.state):
                                self.main.release()
                    else:
                        self.finish(i)
            t = threading.Thread(target=target, daemon=True)
            t.start()
            ths.append(t)
        self.sems[0].release()
        if not self.main.acquire(timeout=HANG_TIMEOUT):
            self.errors = ["Hang"] * self.n
            self.hang = True
            return
        for t in ths:
            t.join(timeout=10)


def preemptions(points, trace, upto=None):
    c = 0
    for i, (tid, where, k, pre) in enumerate(points[:upto]):
        if pre and trace[i] != 0:
            c += 1
    return c


class Capped(Exception):
    pass


def explore(n, bound, run_once, on_execution, first_level_filter=None, deadline=None, exact=False):
    """Iterative context bounding.  run_once(prefix) -> Sched (completed execution);
    on_execution(sched).  first_level_filter(i) restricts the first deviation (work splitting).
    exact: report only executions with exactly `bound` preemptions (the caller iterates the bound).
    deadline (time.time() value): raise Capped before starting an execution after it."""
    import time as _time
    count = [0]

    def rec(prefix, depth):
        if deadline is not None and _time.time() > deadline:
            raise Capped()
        s = run_once(prefix)
        count[0] += 1
        if not exact or getattr(s, "hang", False) or preemptions(s.points, s.trace) == bound:
            on_execution(s, prefix)
        # divergence check: the replayed part must have the same shape
        for i in range(len(prefix), len(s.points)):
            tid, where, k, pre = s.points[i]
            cost = preemptions(s.points, s.trace, i) + (1 if pre else 0)
            if cost > bound:
                continue
            if depth == 0 and first_level_filter is not None and not first_level_filter(i):
                continue
            for alt in range(1, k):
                rec(s.trace[:i] + [alt], depth + 1)

    rec([], 0)
    return count[0]
