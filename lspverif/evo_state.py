"""Evaluation of one EVO state in a fresh interpreter that imports the *evolved* Python package
(LSPVERIF_PYPKG) and reads the evolved model (LSPVERIF_MODEL).  Prints one JSON document.

usage: python -m lspverif.evo_state <base.json> <base_vector_names.txt|-> <out.json> [k] [bisim]
(bisim: only the C04/C09 product walks)"""
from __future__ import annotations

import copy
import json
import logging
import os
import sys
import time


def affected_roots(base_doc, mm):
    from .mm import MM, canon
    b = MM(base_doc)
    roots = []
    changed_enums = set()
    for n, e in mm.enums.items():
        if n not in b.enums or canon(b.enums[n]["values"]) != canon(e["values"]) or bool(b.enums[n].get("supportsCustomValues")) != bool(e.get("supportsCustomValues")):
            changed_enums.add(n)

    def strip(ps):
        return canon([{k: v for k, v in p.items() if k in ("name", "type", "optional")} for p in ps])

    def mentions(t, names):
        if isinstance(t, dict):
            if t.get("kind") == "reference" and t.get("name") in names:
                return True
            return any(mentions(v, names) for v in t.values())
        if isinstance(t, list):
            return any(mentions(v, names) for v in t)
        return False
    for n in mm.structures:
        if n not in b.structures or strip(b.flatten(n)) != strip(mm.flatten(n)):
            roots.append(n)
        elif changed_enums and any(mentions(p["type"], changed_enums) for p in mm.flatten(n)):
            roots.append(n)
    for n, a in mm.aliases.items():
        if n in ("LSPAny", "LSPObject", "LSPArray"):
            continue
        if n not in b.aliases or canon(b.aliases[n]["type"]) != canon(a["type"]):
            roots.append(n)
    benv = b.envelopes()
    for n, e in mm.envelopes().items():
        if n not in benv or strip(benv[n]["properties"]) != strip(e["properties"]):
            roots.append(n)
    return roots, sorted(changed_enums)


def main(argv):
    base_path, base_names_path, out_path = argv[0], argv[1], argv[2]
    k = int(argv[3]) if len(argv) > 3 else 2
    t0 = time.time()
    from . import impl
    from .mm import MM, ref, canon
    from .vse import VSE
    from .explore import get_mm, values_for_root
    out = {"violations": [], "stats": {}, "import_error": None}

    def add(v):
        out["violations"].append({"checker": v.prop, "sig": v.sig, "what": v.what, "input": v.replay.get("input"), "root": v.replay.get("root")})

    with open(base_path, encoding="utf-8") as f:
        base_doc = json.load(f)
    mm = get_mm()
    # ---- (3) the emitted module imports together with the unchanged runtime files
    try:
        lsp = impl.lsp()
        conv = impl.converter()
    except BaseException as e:  # noqa: BLE001
        out["import_error"] = "%s: %s" % (type(e).__name__, str(e)[:300])
        with open(out_path, "w") as f:
            json.dump(out, f)
        return 0
    from .props import c01, c02, c03, c04, c09, c10, c17
    # ---- BISIM C04 + C09 for the evolved document
    c04.expected_classes_and.clear()
    vs, st = c04.bisim(mm, lsp, os.path.join(impl.PY_PKG, "lsprotocol", "types.py"))
    for v in vs:
        add(v)
    out["stats"]["c04_facets"] = st["facets"]
    vs, st = c09.catalogue(mm, lsp)
    for v in vs:
        add(v)
    out["stats"]["c09_facets"] = st["facets"]
    if len(argv) > 4 and argv[4] == "bisim":
        out["stats"]["wall"] = round(time.time() - t0, 1)
        with open(out_path, "w") as f:
            json.dump(out, f, default=repr)
        return 0
    # ---- VSE on the affected region
    roots, changed_enums = affected_roots(base_doc, mm)
    out["stats"]["affected_roots"] = roots[:40]
    out["stats"]["affected_count"] = len(roots)
    evals = 0
    vse = VSE(mm)
    opts = {"max_dev": 1, "cap_combos": 8}
    budget_per_root = 4000
    for name in roots:
        if getattr(lsp, name, None) is None:
            continue          # reported by C04 as missing
        seen = set()
        n = 0
        for basept, c, j in values_for_root(vse, name, k, 0):
            key = canon(j)
            if key in seen:
                continue
            seen.add(key)
            n += 1
            if n > budget_per_root:
                out["stats"].setdefault("capped_roots", []).append(name)
                break
            for judge in (c01.judge, c03.judge, c02.judge):
                ne, oc, vs = judge(mm, name, j, opts)
                evals += ne
                for v in vs:
                    add(v)
        if name in mm.structures or name in mm.envelopes():
            r = c10._task((name, False))
            evals += r["execs"]
            for v in r["viols"]:
                add(v)
    out["stats"]["vse_evaluations"] = evals
    out["stats"]["vse_states"] = vse.states
    out["stats"]["vse_transitions"] = vse.transitions
    # ---- (6) vectors: the real generate() on the evolved model; new / changed vectors validated as in C17
    logging.disable(logging.CRITICAL)
    try:
        model = impl.generator_module("generator.model")
        tg = impl.generator_module("generator.plugins.testdata.testdata_generator")
        doc = mm.doc
        spec = model.create_lsp_model([copy.deepcopy(doc)])
        data = tg.generate(spec, logging.getLogger("lspverif-testdata"))
        base_names = set()
        if base_names_path != "-" and os.path.exists(base_names_path):
            with open(base_names_path) as f:
                base_names = set(f.read().split())
        new = {n: c for n, c in data.items() if n not in base_names}
        out["stats"]["vectors_total"] = len(data)
        out["stats"]["vectors_new_or_changed"] = len(new)
        bad, st = c17.check_vectors(doc, new, lsp, conv)
        for kind, site, what, fname, j in bad:
            out["violations"].append({"checker": "C17", "sig": "C17:%s:%s" % (kind, site), "what": what, "input": j, "root": fname})
        # every message class of the evolved model has a True vector
        smm = c17.strict_mm(doc)
        have = {}
        for n in data:
            m = c17.NAME_RE.match(n)
            if m and m.group(2) == "True":
                have[m.group(1)] = True
        for n, e in smm.envelopes().items():
            if e["role"] in ("request", "response", "notification") and n not in have:
                out["violations"].append({"checker": "C17", "sig": "C17:no-true-vector:%s" % n, "what": "message class %s receives no vector labelled True" % n, "input": None, "root": n})
    except BaseException as e:  # noqa: BLE001
        out["violations"].append({"checker": "C06", "sig": "C06:plugin-fails:testdata:%s" % type(e).__name__,
                                  "what": "testdata plugin generate() fails on the evolved model: %s: %s" % (type(e).__name__, str(e)[:200]), "input": None, "root": None})
    out["stats"]["wall"] = round(time.time() - t0, 1)
    with open(out_path, "w") as f:
        json.dump(out, f, default=repr)
    return 0


if __name__ == "__main__":
    sys.exit(main(sys.argv[1:]))
