"""HIST - nondeterminism seams for the generator (set iteration order, uuid4 stream) and in-process
runs of the real entry point generator.__main__.main (DESIGN 2.6)."""
from __future__ import annotations

import ast
import logging
import os
import sys
import types as pytypes
import uuid as real_uuid

from . import impl


class _OrderedSetBase(set):
    MODE = "asc"

    def __iter__(self):
        items = sorted(set.__iter__(self), key=repr)
        m = type(self).MODE
        if m == "desc":
            items.reverse()
        elif m == "rot" and items:
            k = len(items) // 2
            items = items[k:] + items[:k]
        return iter(items)


def make_set(mode):
    return type("VerifSet_" + mode, (_OrderedSetBase,), {"MODE": mode})


class UuidStream:
    def __init__(self, tag):
        self.tag = tag           # 0xA.. / 0xB..
        self.n = 0
        self.issued_prefix = "%08x" % (0x5EAF0000 + tag)

    def uuid4(self):
        self.n += 1
        return real_uuid.UUID(int=((0x5EAF0000 + self.tag) << 96) | self.n)


def generator_modules():
    impl.generator_module("generator.__main__")
    for p in ("python", "rust", "dotnet", "testdata"):
        impl.generator_module("generator.plugins." + p)
    return {n: m for n, m in sys.modules.items() if n == "generator" or n.startswith("generator.")}


class Seams:
    """Context manager: inject a set order and a uuid stream into every generator module."""

    def __init__(self, set_mode=None, uuid_stream=None):
        self.set_mode = set_mode
        self.uuid_stream = uuid_stream
        self.saved = []

    def __enter__(self):
        mods = generator_modules()
        if self.set_mode:
            cls = make_set(self.set_mode)
            for m in mods.values():
                self.saved.append((m, "set", m.__dict__.get("set", _MISSING)))
                m.__dict__["set"] = cls
        if self.uuid_stream is not None:
            # every way a generator module can reach uuid4: `import uuid` (module attribute, patched on the real
            # module for the duration of the run) and `from uuid import uuid4 [as x]` (a module global bound to it)
            orig = real_uuid.uuid4
            self.saved.append((real_uuid, "uuid4", orig))
            real_uuid.uuid4 = self.uuid_stream.uuid4
            for m in mods.values():
                for k, v in list(m.__dict__.items()):
                    if v is orig:
                        self.saved.append((m, k, v))
                        m.__dict__[k] = self.uuid_stream.uuid4
        return self

    def __exit__(self, *a):
        for m, k, v in reversed(self.saved):
            if v is _MISSING:
                m.__dict__.pop(k, None)
            else:
                m.__dict__[k] = v
        self.saved = []


_MISSING = object()


def run_inprocess(plugin, out_dir, test_dir, models=None, set_mode=None, uuid_stream=None):
    """-> None on success, exception repr on failure."""
    gmain = impl.generator_module("generator.__main__")
    argv = ["--plugin", plugin, "--output-dir", out_dir, "--test-dir", test_dir]
    if models:
        argv += ["--model"] + list(models)
    logging.disable(logging.CRITICAL)
    try:
        with Seams(set_mode, uuid_stream):
            gmain.main(argv)
        return None
    except SystemExit as e:
        return None if e.code in (0, None) else "SystemExit(%r)" % (e.code,)
    except BaseException as e:  # noqa: BLE001
        return "%s: %s" % (type(e).__name__, str(e)[:200])
    finally:
        logging.disable(logging.NOTSET)


def unintercepted_sets():
    """AST scan: set literals / comprehensions / frozenset calls in the generator that the injected
    name `set` cannot intercept -> [(file, line, kind, n_elements)]."""
    out = []
    root = os.path.join(impl.REPO, "generator")
    for d, _, files in os.walk(root):
        for f in files:
            if not f.endswith(".py"):
                continue
            p = os.path.join(d, f)
            try:
                tree = ast.parse(open(p, encoding="utf-8").read())
            except SyntaxError:
                continue
            for node in ast.walk(tree):
                if isinstance(node, ast.Set):
                    out.append((os.path.relpath(p, impl.REPO), node.lineno, "set-literal", len(node.elts)))
                elif isinstance(node, ast.SetComp):
                    out.append((os.path.relpath(p, impl.REPO), node.lineno, "set-comprehension", -1))
                elif isinstance(node, ast.Call) and isinstance(node.func, ast.Name) and node.func.id == "frozenset":
                    out.append((os.path.relpath(p, impl.REPO), node.lineno, "frozenset", -1))
    return out
