"""VSE - deviation-bounded value-space explorer (DESIGN 2.2, Appendix A).

The metamodel is read as a nondeterministic generator automaton; `enum(t, k)` yields every
derivation (cost, value) of type t with at most k non-canonical choices from the minimal base
point, `enum_max` the same from the maximal base point.
"""
from __future__ import annotations

from .mm import MM, ANY_ALIASES, is_null_type

BASE = {
    "string": ["s", "", "é✓\U0001d11e"],
    "integer": [0, -1, 2**31 - 1, -(2**31)],
    "uinteger": [0, 1, 2**31 - 1],
    "decimal": [0.5, 1, -2.5e10],
    "boolean": [True, False],
    "null": [None],
    "DocumentUri": ["file:///a", "untitled:b%20c"],
    "URI": ["file:///a", "https://h/p?q#f"],
    "Uri": ["file:///a"],
    "RegExp": [".*"],
}
ANY = [None, True, 0, 1.5, "s", [], [1, "a", None], {}, {"k": {"n": [1]}},
       {"kind": "create"}, {"id": 1}, {"command": "s"}]
ANY_OBJ = [{}, {"k": 1}, {"kind": "create", "id": 1}]
ANY_ARR = [[], [1, "a"], [{"id": 1}, None]]
CUSTOM = {"string": ["verif/custom"], "integer": [12345], "uinteger": [12345]}
ID_ALPHABET = [1, "id", 2**31 - 1, -(2**31)]


class VSE:
    def __init__(self, mm: MM, id_alphabet=True):
        self.mm = mm
        self.states = 0
        self.transitions = 0

    # -------------------------------------------------------------------------- minimal base
    def enum(self, t, k):
        """All (cost, value) with cost <= k, departures from the minimal value."""
        self.states += 1
        kind = t["kind"]
        if kind == "base":
            for i, v in enumerate(BASE[t["name"]]):
                c = 0 if i == 0 else 1
                if c <= k:
                    self.transitions += 1
                    yield c, v
        elif kind in ("stringLiteral", "integerLiteral", "booleanLiteral"):
            self.transitions += 1
            yield 0, t["value"]
        elif kind == "reference":
            n = t["name"]
            mm = self.mm
            if n in mm.structures:
                yield from self.enum_obj(mm.flatten(n), k)
            elif n in mm.aliases:
                if n in ANY_ALIASES:
                    alpha = ANY if n == "LSPAny" else ANY_OBJ if n == "LSPObject" else ANY_ARR
                    for i, v in enumerate(alpha):
                        c = 0 if i == 0 else 1
                        if c <= k:
                            self.transitions += 1
                            yield c, v
                else:
                    yield from self.enum(mm.aliases[n]["type"], k)
            elif n in mm.enums:
                e = mm.enums[n]
                for i, v in enumerate(e["values"]):
                    c = 0 if i == 0 else 1
                    if c <= k:
                        self.transitions += 1
                        yield c, v["value"]
                if mm.is_open_enum(n) and k >= 1:
                    for v in CUSTOM[e["type"]["name"]]:
                        self.transitions += 1
                        yield 1, v
            elif n in mm.envelopes():
                yield from self.enum_obj(mm.envelopes()[n]["properties"], k)
            else:
                raise KeyError(n)
        elif kind == "array":
            self.transitions += 1
            yield 0, []
            if k >= 1:
                for c, v in self.enum(t["element"], k - 1):
                    yield c + 1, [v]
            if k >= 2:
                for c1, v1 in self.enum(t["element"], k - 2):
                    for c2, v2 in self.enum(t["element"], k - 2 - c1):
                        yield c1 + c2 + 2, [v1, v2]
        elif kind == "map":
            self.transitions += 1
            yield 0, {}
            if k >= 1:
                keys = list(self.enum(t["key"], k - 1))
                for ck, kv in keys:
                    for c, v in self.enum(t["value"], k - 1 - ck):
                        yield ck + c + 1, {str(kv): v}
            if k >= 2:
                keys = [kv for ck, kv in self.enum(t["key"], 1)]
                if len(keys) >= 2:
                    for c1, v1 in self.enum(t["value"], k - 2):
                        for c2, v2 in self.enum(t["value"], k - 2 - c1):
                            yield 2 + c1 + c2, {str(keys[0]): v1, str(keys[1]): v2}
        elif kind == "or":
            first = True
            for it in t["items"]:
                if is_null_type(it):
                    c0 = 1
                else:
                    c0 = 0 if first else 1
                    first = False
                if c0 <= k:
                    for c, v in self.enum(it, k - c0):
                        yield c + c0, v
        elif kind == "and":
            yield from self.enum_obj(self.mm.and_props(t), k)
        elif kind == "tuple":
            yield from self._tuple(t["items"], 0, k)
        elif kind == "literal":
            yield from self.enum_obj(t["value"].get("properties", []), k)
        else:
            raise KeyError(kind)

    def _tuple(self, items, i, k):
        if i == len(items):
            yield 0, []
            return
        for c, v in self.enum(items[i], k):
            for c2, r in self._tuple(items, i + 1, k - c):
                yield c + c2, [v] + r

    def enum_obj(self, ps, k):
        yield from self._obj(ps, 0, k)

    def _obj(self, ps, i, k):
        if i == len(ps):
            self.transitions += 1
            yield 0, {}
            return
        p = ps[i]
        if p.get("optional"):
            for c2, r in self._obj(ps, i + 1, k):
                yield c2, r
            if k >= 1:
                for c, v in self.enum(p["type"], k - 1):
                    for c2, r in self._obj(ps, i + 1, k - 1 - c):
                        d = dict(r)
                        d[p["name"]] = v
                        yield c + 1 + c2, d
        else:
            for c, v in self.enum(p["type"], k):
                for c2, r in self._obj(ps, i + 1, k - c):
                    d = dict(r)
                    d[p["name"]] = v
                    yield c + c2, d

    # -------------------------------------------------------------------------- maximal base
    def enum_max(self, t, k, stack=()):
        """All (cost, value) with cost <= k, departures from the maximal value (every optional
        present, last alternative, one element; recursion through a structure on the stack is
        cut to the minimal base)."""
        self.states += 1
        kind = t["kind"]
        mm = self.mm
        if kind == "base":
            al = BASE[t["name"]]
            for i, v in enumerate(al):
                c = 0 if i == len(al) - 1 else 1
                if c <= k:
                    self.transitions += 1
                    yield c, v
        elif kind in ("stringLiteral", "integerLiteral", "booleanLiteral"):
            yield 0, t["value"]
        elif kind == "reference":
            n = t["name"]
            if n in mm.structures or n in mm.envelopes():
                if n in stack:
                    yield from self.enum(t, k)
                else:
                    props = mm.props_of(t)
                    yield from self._obj_max(props, 0, k, stack + (n,))
            elif n in mm.aliases:
                if n in ANY_ALIASES:
                    al = ANY if n == "LSPAny" else ANY_OBJ if n == "LSPObject" else ANY_ARR
                    for i, v in enumerate(al):
                        c = 0 if i == len(al) - 1 else 1
                        if c <= k:
                            self.transitions += 1
                            yield c, v
                else:
                    yield from self.enum_max(mm.aliases[n]["type"], k, stack)
            elif n in mm.enums:
                e = mm.enums[n]
                vals = e["values"]
                for i, v in enumerate(vals):
                    c = 0 if i == len(vals) - 1 else 1
                    if c <= k:
                        self.transitions += 1
                        yield c, v["value"]
                if mm.is_open_enum(n) and k >= 1:
                    for v in CUSTOM[e["type"]["name"]]:
                        yield 1, v
            else:
                raise KeyError(n)
        elif kind == "array":
            for c, v in self.enum_max(t["element"], k, stack):
                yield c, [v]
            if k >= 1:
                self.transitions += 1
                yield 1, []
                for c1, v1 in self.enum_max(t["element"], k - 1, stack):
                    for c2, v2 in self.enum_max(t["element"], k - 1 - c1, stack):
                        yield c1 + c2 + 1, [v1, v2]
        elif kind == "map":
            keys = [kv for _, kv in self.enum(t["key"], 1)]
            for c, v in self.enum_max(t["value"], k, stack):
                yield c, {str(keys[0]): v}
            if k >= 1:
                yield 1, {}
        elif kind == "or":
            items = t["items"]
            nn = [i for i, it in enumerate(items) if not is_null_type(it)]
            last = nn[-1] if nn else len(items) - 1
            for i, it in enumerate(items):
                c0 = 0 if i == last else 1
                if c0 <= k:
                    for c, v in self.enum_max(it, k - c0, stack):
                        yield c + c0, v
        elif kind == "and":
            yield from self._obj_max(mm.and_props(t), 0, k, stack)
        elif kind == "tuple":
            yield from self._tuple_max(t["items"], 0, k, stack)
        elif kind == "literal":
            yield from self._obj_max(t["value"].get("properties", []), 0, k, stack)
        else:
            raise KeyError(kind)

    def _tuple_max(self, items, i, k, stack):
        if i == len(items):
            yield 0, []
            return
        for c, v in self.enum_max(items[i], k, stack):
            for c2, r in self._tuple_max(items, i + 1, k - c, stack):
                yield c + c2, [v] + r

    def _obj_max(self, ps, i, k, stack):
        if i == len(ps):
            self.transitions += 1
            yield 0, {}
            return
        p = ps[i]
        for c, v in self.enum_max(p["type"], k, stack):
            for c2, r in self._obj_max(ps, i + 1, k - c, stack):
                d = dict(r)
                d[p["name"]] = v
                yield c + c2, d
        if p.get("optional") and k >= 1:
            for c2, r in self._obj_max(ps, i + 1, k - 1, stack):
                yield c2 + 1, r

    # -------------------------------------------------------------------------- helpers
    def minimal(self, t):
        for c, v in self.enum(t, 0):
            return v

    def maximal(self, t):
        for c, v in self.enum_max(t, 0):
            return v


def root_type(kind, name):
    return {"kind": "reference", "name": name}
