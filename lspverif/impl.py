"""Binding to the implementation under test: imports lsprotocol / generator from the tree named
by LSPVERIF_REPO (default /repo) - always the current working tree, never an installed copy."""
from __future__ import annotations

import os
import sys

REPO = os.path.realpath(os.environ.get("LSPVERIF_REPO", "/repo"))
# the Python package and the model under test can be redirected (C06: evolved model + regenerated
# types.py next to the unchanged runtime files); the generator always comes from REPO
PY_PKG = os.path.realpath(os.environ.get("LSPVERIF_PYPKG", os.path.join(REPO, "packages", "python")))
MODEL_PATH = os.path.realpath(os.environ.get("LSPVERIF_MODEL", os.path.join(REPO, "generator", "lsp.json")))
SCHEMA_PATH = os.path.join(REPO, "generator", "lsp.schema.json")


def setup_paths():
    for p in (REPO, PY_PKG):
        while p in sys.path:
            sys.path.remove(p)
    sys.path.insert(0, REPO)
    sys.path.insert(0, PY_PKG)
    sys.dont_write_bytecode = True


_conv = None


def lsp():
    setup_paths()
    import lsprotocol.types as t
    assert os.path.realpath(t.__file__).startswith(PY_PKG), t.__file__
    return t


def converter(fresh=False):
    global _conv
    setup_paths()
    from lsprotocol import converters
    assert os.path.realpath(converters.__file__).startswith(PY_PKG), converters.__file__
    if fresh:
        return converters.get_converter()
    if _conv is None:
        _conv = converters.get_converter()
    return _conv


def generator_module(name="generator"):
    setup_paths()
    import importlib
    m = importlib.import_module(name)
    assert os.path.realpath(m.__file__).startswith(REPO), m.__file__
    return m


def repo_rev():
    import subprocess
    try:
        r = subprocess.run(["git", "-C", REPO, "rev-parse", "--short", "HEAD"], capture_output=True, text=True)
        d = subprocess.run(["git", "-C", REPO, "status", "--porcelain"], capture_output=True, text=True)
        return r.stdout.strip() + ("+dirty" if d.stdout.strip() else "")
    except Exception:
        return "unknown"
