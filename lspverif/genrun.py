"""Running the real generator CLI on scratch directories (never inside /repo or /verif)."""
from __future__ import annotations

import hashlib
import os
import shutil
import subprocess
import tempfile

from . import impl

PY = "/venv/bin/python"
SCRATCH_ROOT = os.environ.get("LSPVERIF_SCRATCH", "/tmp")


def scratch(prefix="lspverif-"):
    return tempfile.mkdtemp(prefix=prefix, dir=SCRATCH_ROOT)


def rm(path):
    shutil.rmtree(path, ignore_errors=True)


def run_cli(plugin, out_dir, test_dir, models=None, hashseed="0", timeout=600, extra_env=None):
    """`python -m generator --plugin p --output-dir o --test-dir t [--model ...]` in a new process,
    cwd = repository, importing the generator of the current tree."""
    cmd = [PY, "-m", "generator", "--plugin", plugin, "--output-dir", out_dir, "--test-dir", test_dir]
    if models:
        cmd += ["--model"] + list(models)
    env = dict(os.environ)
    env["PYTHONPATH"] = impl.REPO
    env["PYTHONHASHSEED"] = str(hashseed)
    env["PYTHONDONTWRITEBYTECODE"] = "1"
    if extra_env:
        env.update(extra_env)
    r = subprocess.run(cmd, cwd=impl.REPO, env=env, capture_output=True, text=True, timeout=timeout)
    return r


def digest_tree(root):
    """relative path -> sha256 of content, for every file below root."""
    out = {}
    for d, _, files in os.walk(root):
        for f in files:
            p = os.path.join(d, f)
            with open(p, "rb") as fh:
                out[os.path.relpath(p, root)] = hashlib.sha256(fh.read()).hexdigest()
    return out


def rustfmt(path, edition="2021"):
    r = subprocess.run(["rustfmt", "--edition", edition, path], capture_output=True, text=True, timeout=300)
    return r
