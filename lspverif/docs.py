"""Metamodel documents used by the history / gate / evolution checks: the committed model and small
self-contained slices of it (closure over references), always derived from the current tree."""
from __future__ import annotations

import copy
import json

from . import impl


def committed():
    with open(impl.MODEL_PATH, encoding="utf-8") as f:
        return json.load(f)


def _refs(t, out):
    if isinstance(t, list):
        for x in t:
            _refs(x, out)
        return
    if not isinstance(t, dict):
        return
    k = t.get("kind")
    if k == "reference":
        out.add(t["name"])
    for key in ("element", "key", "value"):
        if isinstance(t.get(key), dict):
            if key == "value" and k == "literal":
                for p in t["value"].get("properties", []):
                    _refs(p["type"], out)
            else:
                _refs(t[key], out)
    for it in t.get("items", []) if isinstance(t.get("items"), list) else []:
        _refs(it, out)


def slice_model(doc, methods=(), names=(), always=("LSPAny", "LSPObject", "LSPArray")):
    """Sub-document with the given methods and declarations plus everything they reference."""
    S = {s["name"]: s for s in doc["structures"]}
    E = {e["name"]: e for e in doc["enumerations"]}
    A = {a["name"]: a for a in doc["typeAliases"]}
    want = set(names) | set(always)
    reqs = [r for r in doc["requests"] if r["method"] in methods]
    nots = [n for n in doc["notifications"] if n["method"] in methods]
    for m in reqs + nots:
        for f in ("params", "result", "partialResult", "registrationOptions", "errorData"):
            if m.get(f) is not None:
                _refs(m[f], want)
    done = set()
    while want - done:
        n = (want - done).pop()
        done.add(n)
        if n in S:
            for p in S[n].get("properties", []):
                _refs(p["type"], want)
            _refs(S[n].get("extends", []), want)
            _refs(S[n].get("mixins", []), want)
        elif n in A:
            _refs(A[n]["type"], want)
    return {
        "metaData": copy.deepcopy(doc["metaData"]),
        "requests": copy.deepcopy(reqs),
        "notifications": copy.deepcopy(nots),
        "structures": [copy.deepcopy(s) for s in doc["structures"] if s["name"] in done],
        "enumerations": [copy.deepcopy(e) for e in doc["enumerations"] if e["name"] in done],
        "typeAliases": [copy.deepcopy(a) for a in doc["typeAliases"] if a["name"] in done],
    }


def small_base(doc=None):
    """A small schema-valid, loadable document that contains an instance of every kind of node the
    committed model uses (and, or, tuple, map, literal, stringLiteral, extends, mixins, open/closed
    enums of both bases, request with/without params, registration options, notification)."""
    doc = doc or committed()
    return slice_model(
        doc,
        methods=("textDocument/colorPresentation", "textDocument/hover", "shutdown", "textDocument/didOpen", "exit",
                 "textDocument/semanticTokens/full"),
        names=("ParameterInformation", "WorkspaceEdit", "SemanticTokensOptions", "CreateFile", "FoldingRange", "Diagnostic"),
    )


def without(doc, method):
    """The document minus one request/notification, the structures only it references, and one enum."""
    d = copy.deepcopy(doc)
    d["requests"] = [r for r in d["requests"] if r["method"] != method]
    d["notifications"] = [n for n in d["notifications"] if n["method"] != method]
    # garbage-collect declarations that were reachable from a method before and are now referenced
    # neither from a remaining method nor from a declaration that never was reachable from a method
    full = slice_model(doc, methods=[m["method"] for m in doc["requests"] + doc["notifications"]], names=[], always=())
    reach_before = {s["name"] for s in full["structures"]} | {e["name"] for e in full["enumerations"]} | {a["name"] for a in full["typeAliases"]}
    all_names = [x["name"] for x in doc["structures"] + doc["enumerations"] + doc["typeAliases"]]
    never = [n for n in all_names if n not in reach_before]
    keep = slice_model(d, methods=[m["method"] for m in d["requests"] + d["notifications"]], names=never)
    kept = {s["name"] for s in keep["structures"]} | {e["name"] for e in keep["enumerations"]} | {a["name"] for a in keep["typeAliases"]}
    drop = reach_before - kept
    d["structures"] = [s for s in d["structures"] if s["name"] not in drop]
    d["enumerations"] = [e for e in d["enumerations"] if e["name"] not in drop]
    d["typeAliases"] = [a for a in d["typeAliases"] if a["name"] not in drop]
    return d, sorted(drop)


def write(doc, path):
    with open(path, "w", encoding="utf-8") as f:
        json.dump(doc, f)
    return path
