"""EVO - spec-evolution edit operators over metamodel documents (DESIGN 2.4).

Every operator returns [(label, arg_class, new_document)].  All names are plain lowerCamelCase like
the names of the committed model, or Python keywords; every result must validate against the
rooted schema (checked by the caller - a self-check of these operators)."""
from __future__ import annotations

import copy

B = lambda n: {"kind": "base", "name": n}          # noqa: E731
R = lambda n: {"kind": "reference", "name": n}     # noqa: E731
ARR = lambda t: {"kind": "array", "element": t}    # noqa: E731
OR = lambda *ts: {"kind": "or", "items": list(ts)}  # noqa: E731

LEAF = "Color"
BASE = "TextDocumentPositionParams"
MIXIN = "WorkDoneProgressParams"
PARAMS = "HoverParams"


def prop_types(full):
    """The property-type alphabet.  (label, type)"""
    core = [
        ("string", B("string")), ("uinteger", B("uinteger")), ("boolean", B("boolean")),
        ("ref-struct", R("Position")), ("ref-closed-str-enum", R("MarkupKind")), ("ref-open-str-enum", R("LanguageKind")),
        ("array-struct", ARR(R("Range"))), ("map-str-base", {"kind": "map", "key": B("string"), "value": B("integer")}),
        ("tuple", {"kind": "tuple", "items": [B("uinteger"), B("string")]}), ("struct-or-null", OR(R("Position"), B("null"))),
        ("null-or-string", OR(B("null"), B("string"))),
        ("ref-open-integer-enum", R("ErrorCodes")), ("map-str-open-enum", {"kind": "map", "key": B("string"), "value": R("LanguageKind")}),
        ("literal", {"kind": "literal", "value": {"properties": [
            {"name": "first", "type": B("string")}, {"name": "secondValue", "type": OR(B("uinteger"), B("null"))},
            {"name": "third", "type": B("boolean"), "optional": True}]}}),
        # added after the fifth wave: a map keyed by an open enumeration; an anonymous literal with a string-literal
        # member and a camelCase null-admitting member (a general `or` of several literals is outside the statement's
        # edit discipline - property types are base, reference, array, map, tuple or T|null - and the dotnet plugin's
        # naming scheme indeed has no name for the second literal of such a union)
        ("map-open-enum-key", {"kind": "map", "key": R("CodeActionKind"), "value": B("string")}),
        ("literal-with-literal-member", {"kind": "literal", "value": {"properties": [
            {"name": "kind", "type": {"kind": "stringLiteral", "value": "computed"}}, {"name": "providerName", "type": B("string")},
            {"name": "scopeUri", "type": OR(B("DocumentUri"), B("null"))}]}}),
    ]
    more = [
        ("integer", B("integer")), ("decimal", B("decimal")), ("DocumentUri", B("DocumentUri")), ("URI", B("URI")),
        ("ref-recursive-struct", R("SelectionRange")), ("ref-closed-int-enum", R("SymbolKind")), ("ref-open-int-enum", R("WatchKind")),
        ("ref-alias-base", R("Pattern")), ("ref-alias-array", R("DocumentSelector")), ("ref-alias-union", R("ProgressToken")),
        ("ref-LSPAny", R("LSPAny")), ("ref-LSPObject", R("LSPObject")),
        ("array-base", ARR(B("string"))), ("array-closed-enum", ARR(R("SymbolTag"))), ("array-open-enum", ARR(R("CodeActionKind"))),
        ("map-uri-struct", {"kind": "map", "key": B("DocumentUri"), "value": R("Range")}),
        ("base-or-null", OR(B("string"), B("null"))), ("array-or-null", OR(ARR(R("Position")), B("null"))),
        ("array-of-literal", ARR({"kind": "literal", "value": {"properties": [{"name": "label", "type": B("string")}]}})),
        ("literal-or-null", OR({"kind": "literal", "value": {"properties": [{"name": "value", "type": B("boolean")}]}}, B("null"))),
        ("empty-literal", {"kind": "literal", "value": {"properties": []}}),
        ("RegExp", B("RegExp")),
    ]
    return core + (more if full else [])


def _struct(doc, name):
    for s in doc["structures"]:
        if s["name"] == name:
            return s
    raise KeyError(name)


def _enum(doc, name):
    for e in doc["enumerations"]:
        if e["name"] == name:
            return e
    raise KeyError(name)


def e0(doc, full):
    return [("identity", "E0", copy.deepcopy(doc))]


def e1_new_structure(doc, full):
    out = []
    variants = [("0props", []), ("1prop", [{"name": "verifValue", "type": B("string")}]),
                ("3props", [{"name": "verifValue", "type": B("string")}, {"name": "verifRange", "type": R("Range"), "optional": True},
                            {"name": "verifItems", "type": ARR(B("uinteger")), "optional": True}])]
    marks = [("plain", {}), ("documented", {"documentation": "A structure added by an evolution edit.\n\n@since 3.18.0", "since": "3.18.0"}),
             ("proposed", {"proposed": True, "since": "3.18.0"}), ("deprecated", {"deprecated": "use something else"})]
    for vl, props in (variants if full else variants[1:2] + variants[2:]):
        for ml, mk in (marks if full else marks[:1]):
            d = copy.deepcopy(doc)
            s = {"name": "VerifNewStructure", "properties": copy.deepcopy(props)}
            s.update(mk)
            d["structures"].append(s)
            out.append(("new structure (%s, %s)" % (vl, ml), "E1:%s:%s" % (vl, ml), d))
    return out


def e2_new_property(doc, full, owners=None):
    out = []
    owners = owners or [("leaf", LEAF), ("base", BASE), ("mixin", MIXIN), ("params", PARAMS), ("special", "SelectionRange")]
    if full:
        owners = owners + [("special-open", "InitializedParams")]
    types = prop_types(full)
    names = ["verifProp", "verifLongerName", "class", "global", "verif2Data"]
    combos = []
    if full:
        for ol, o in owners:
            for tl, t in types:
                combos.append((ol, o, tl, t, "verifProp", True))
        for tl, t in types[:6]:
            combos.append(("leaf", LEAF, tl, t, "verifProp", False))
        for nm in names[1:]:
            for ol, o in owners[:2]:
                combos.append((ol, o, "string", B("string"), nm, True))
                combos.append((ol, o, "ref-struct", R("Position"), nm, False))
    else:
        # one representative per row: every type once, owners / names / optionality rotated
        for i, (tl, t) in enumerate(types):
            ol, o = owners[i % len(owners)]
            combos.append((ol, o, tl, t, names[i % len(names)], i % 3 != 0))
        # combinations that need two things at once: a Python keyword that is also always-written
        combos.append(("leaf", LEAF, "base-or-null", OR(B("string"), B("null")), "global", False))
        combos.append(("params", PARAMS, "literal-kind", {"kind": "stringLiteral", "value": "verif"}, "class", False))
    for ol, o, tl, t, nm, opt in combos:
        d = copy.deepcopy(doc)
        p = {"name": nm, "type": copy.deepcopy(t)}
        if opt:
            p["optional"] = True
        _struct(d, o)["properties"].append(p)
        out.append(("new %s property %s: %s on %s structure %s" % ("optional" if opt else "required", nm, tl, ol, o),
                    "E2:%s:%s:%s:%s" % (ol, tl, "kw" if nm in ("class", "global") else "digit" if nm == "verif2Data" else "plain", "opt" if opt else "req"), d))
    return out


def e3_inheritance(doc, full):
    out = []
    d = copy.deepcopy(doc)
    d["structures"].append({"name": "VerifDerived", "properties": [{"name": "verifOwn", "type": B("boolean"), "optional": True}],
                            "extends": [R(BASE)]})
    out.append(("new structure extending %s" % BASE, "E3:extends", d))
    d = copy.deepcopy(doc)
    d["structures"].append({"name": "VerifMixed", "properties": [{"name": "verifOwn", "type": B("string")}], "mixins": [R(MIXIN)],
                            "extends": [R("Position")]})
    out.append(("new structure extending Position with mixin %s" % MIXIN, "E3:mixin", d))
    d = copy.deepcopy(doc)
    d["structures"].append({"name": "VerifVersionBase", "properties": [{"name": "version", "type": B("integer"), "optional": True}, {"name": "uri", "type": B("DocumentUri")}]})
    d["structures"].append({"name": "VerifVersionMixin", "properties": [{"name": "version", "type": OR(B("integer"), B("null"))}]})
    d["structures"].append({"name": "VerifBothParams", "properties": [], "extends": [R("VerifVersionBase")], "mixins": [R("VerifVersionMixin")]})
    d["notifications"].append({"method": "verif/both", "typeName": "VerifBothNotification", "params": R("VerifBothParams"), "messageDirection": "clientToServer"})
    out.append(("new structure getting the same property from its base (optional integer) and from a mixin (integer|null)", "E3:same-prop-two-ancestors", d))
    d = copy.deepcopy(doc)
    d["structures"].append({"name": "VerifRevision", "properties": [{"name": "revision", "type": B("integer")}]})
    d["structures"].append({"name": "VerifSavedRevision", "properties": [{"name": "revision", "type": B("uinteger")}], "extends": [R("VerifRevision")]})
    d["structures"].append({"name": "VerifPublishedRevision", "properties": [{"name": "label", "type": B("string"), "optional": True}], "extends": [R("VerifSavedRevision")]})
    out.append(("two-level extends chain whose middle structure narrows an integer property to uinteger", "E3:chain-override", d))
    d = copy.deepcopy(doc)
    d["structures"].append({"name": "VerifDeepMixed", "properties": [{"name": "verifOwn", "type": B("string"), "optional": True}],
                            "mixins": [R("HoverParams")]})
    d["notifications"].append({"method": "verif/deepMixed", "typeName": "VerifDeepMixedNotification", "params": R("VerifDeepMixed"), "messageDirection": "clientToServer"})
    out.append(("new structure mixing in HoverParams (a mixin that itself extends and mixes in other structures), used by a new notification", "E3:mixin-with-parents", d))
    d = copy.deepcopy(doc)
    lit1 = {"kind": "literal", "value": {"properties": [{"name": "author", "type": B("string")}]}}
    lit2 = {"kind": "literal", "value": {"properties": [{"name": "revision", "type": B("uinteger")}, {"name": "note", "type": B("string"), "optional": True}]}}
    d["structures"].append({"name": "VerifFirstOwner", "properties": [{"name": "metadata", "type": lit1}]})
    d["structures"].append({"name": "VerifSecondOwner", "properties": [{"name": "metadata", "type": lit2, "optional": True}]})
    out.append(("two new structures with an anonymous literal under the same property name", "E1+E2:same-literal-name-twice", d))
    d = copy.deepcopy(doc)
    d["structures"].append({"name": "VerifKindMixin", "properties": [{"name": "kind", "type": B("string")}, {"name": "label", "type": B("string"), "optional": True}]})
    d["structures"].append({"name": "VerifArchiveParams", "properties": [{"name": "kind", "type": {"kind": "stringLiteral", "value": "archive"}},
                                                                         {"name": "uri", "type": B("DocumentUri")}],
                            "mixins": [R("VerifKindMixin")]})
    d["notifications"].append({"method": "verif/archive", "typeName": "VerifArchiveNotification", "params": R("VerifArchiveParams"), "messageDirection": "clientToServer"})
    out.append(("new structure re-declaring (as a string literal) a property of its mixin, used by a new notification", "E3:mixin-override+E5", d))
    d = copy.deepcopy(doc)
    _struct(d, LEAF)["extends"] = [R("WorkDoneProgressOptions")]
    out.append(("existing leaf %s gains extends WorkDoneProgressOptions" % LEAF, "E3:leaf-gains-extends", d))
    # ---- added after the fifth wave: deeper and wider hierarchies
    d = copy.deepcopy(doc)
    d["structures"].append({"name": "VerifTopReport", "properties": [{"name": "kind", "type": B("string")}, {"name": "resultId", "type": B("string"), "optional": True},
                                                                     {"name": "count", "type": B("integer")}]})
    d["structures"].append({"name": "VerifMidReport", "properties": [{"name": "kind", "type": {"kind": "stringLiteral", "value": "mid"}}, {"name": "resultId", "type": B("string")},
                                                                     {"name": "count", "type": B("uinteger")}], "extends": [R("VerifTopReport")]})
    d["structures"].append({"name": "VerifLeafReport", "properties": [{"name": "note", "type": B("string"), "optional": True}], "extends": [R("VerifMidReport")]})
    d["notifications"].append({"method": "verif/leafReport", "typeName": "VerifLeafReportNotification", "params": R("VerifLeafReport"), "messageDirection": "serverToClient"})
    out.append(("three-level chain whose middle structure narrows kind to a literal, makes resultId required and count unsigned; the leaf is a notification's params",
                "E3:chain-narrowing+E5", d))
    d = copy.deepcopy(doc)
    d["structures"].append({"name": "VerifLevelOne", "properties": [{"name": "levelOne", "type": B("string"), "optional": True}],
                            "extends": [R("TextDocumentRegistrationOptions")], "mixins": [R("WorkDoneProgressOptions")]})
    for i, (nm, prev) in enumerate((("VerifLevelTwo", "VerifLevelOne"), ("VerifLevelThree", "VerifLevelTwo"), ("VerifLevelFour", "VerifLevelThree"))):
        d["structures"].append({"name": nm, "properties": [{"name": "level%d" % (i + 2), "type": B("uinteger"), "optional": True}], "extends": [R(prev)]})
    d["notifications"].append({"method": "verif/levelFour", "typeName": "VerifLevelFourNotification", "params": R("VerifLevelFour"), "messageDirection": "clientToServer"})
    out.append(("four-level extends chain on top of TextDocumentRegistrationOptions with a mixin at its root; the deepest structure is a notification's params",
                "E3:chain-depth-4+E5", d))
    d = copy.deepcopy(doc)
    d["structures"].append({"name": "VerifWindowBase", "properties": [{"name": "limit", "type": B("uinteger")}]})
    d["structures"].append({"name": "VerifCursorBase", "properties": [{"name": "limit", "type": B("string")}, {"name": "cursor", "type": B("string"), "optional": True}]})
    d["structures"].append({"name": "VerifWindowQuery", "properties": [{"name": "windowOnly", "type": B("boolean"), "optional": True}], "extends": [R("VerifWindowBase")]})
    d["structures"].append({"name": "VerifCursorQuery", "properties": [{"name": "cursorOnly", "type": B("boolean"), "optional": True}], "extends": [R("VerifCursorBase")]})
    d["structures"].append({"name": "VerifPagedQuery", "properties": [], "extends": [R("VerifWindowQuery"), R("VerifCursorQuery")]})
    out.append(("structure with two parents that each inherit a differently declared `limit` from their own base", "E3:two-lineages", d))
    d = copy.deepcopy(doc)
    d["structures"].insert(0, {"name": "VerifDiamond", "properties": [{"name": "own", "type": B("string"), "optional": True}],
                               "extends": [R("VerifDiamondLeft"), R("VerifDiamondRight")]})
    d["structures"].append({"name": "VerifDiamondLeft", "properties": [{"name": "left", "type": B("string"), "optional": True}], "mixins": [R("WorkDoneProgressOptions")]})
    d["structures"].append({"name": "VerifDiamondRight", "properties": [{"name": "right", "type": B("string"), "optional": True}], "mixins": [R("WorkDoneProgressOptions")]})
    out.append(("diamond: a structure listed FIRST whose two parents (listed last) both mix in WorkDoneProgressOptions", "E3:diamond-listed-first", d))
    d = copy.deepcopy(doc)
    d["structures"].append({"name": "VerifSnapshotIdentifier", "properties": [{"name": "version", "type": B("integer"), "optional": True}],
                            "extends": [R("OptionalVersionedTextDocumentIdentifier")]})
    d["structures"].append({"name": "VerifSnapshotChild", "properties": [{"name": "label", "type": B("string"), "optional": True}], "extends": [R("VerifSnapshotIdentifier")]})
    d["structures"].append({"name": "VerifPlainRegistrationOptions", "properties": [{"name": "documentSelector", "type": R("DocumentSelector"), "optional": True}],
                            "extends": [R("TextDocumentRegistrationOptions")]})
    d["notifications"].append({"method": "verif/snapshot", "typeName": "VerifSnapshotNotification", "params": R("VerifSnapshotChild"), "messageDirection": "clientToServer"})
    out.append(("derived structures re-declare an inherited null-admitting property (version, documentSelector) as a plain optional one; grandchild is a notification's params",
                "E3:override-drops-null+E5", d))
    if full:
        d = copy.deepcopy(doc)
        d["structures"].append({"name": "VerifOverride", "properties": [{"name": "position", "type": R("Range")}], "extends": [R(BASE)]})
        out.append(("new structure overriding an inherited property", "E3:override", d))
    return out


def e4_enums(doc, full):
    out = []
    for bl, base, vals in (("string", "string", [("first", "first"), ("second", "second")]), ("integer", "integer", [("neg", -1), ("one", 1)]),
                           ("uinteger", "uinteger", [("one", 1), ("two", 2)])):
        if not full and bl == "integer":
            continue
        d = copy.deepcopy(doc)
        d["enumerations"].append({"name": "VerifNewEnum", "type": B(base), "values": [{"name": n, "value": v} for n, v in vals]})
        _struct(d, LEAF)["properties"].append({"name": "verifKind", "type": R("VerifNewEnum"), "optional": True})
        out.append(("new closed %s enumeration used by a new property" % bl, "E4:new-%s" % bl, d))
    d = copy.deepcopy(doc)
    d["enumerations"].append({"name": "VerifCompletionItemKind", "type": B("uinteger"), "values": [{"name": "one", "value": 1}, {"name": "two", "value": 2}]})
    _struct(d, LEAF)["properties"].append({"name": "verifKind", "type": R("VerifCompletionItemKind"), "optional": True})
    out.append(("new closed enumeration whose name ends with the name of a customised open one (CompletionItemKind)", "E4:new-closed-resembling-name", d))
    d = copy.deepcopy(doc)
    _enum(d, "MarkupKind")["values"].append({"name": "VerifValue", "value": "verifvalue"})
    out.append(("value appended to closed enumeration MarkupKind", "E4:append-closed", d))
    d = copy.deepcopy(doc)
    _enum(d, "TextDocumentSaveReason")["supportsCustomValues"] = False
    _enum(d, "MarkupKind")["supportsCustomValues"] = False
    out.append(("closed enumerations spell out supportsCustomValues: false", "E4:explicit-false", d))
    d = copy.deepcopy(doc)
    _enum(d, "CodeActionKind")["values"].append({"name": "VerifValue", "value": "verif.value", "proposed": True})
    out.append(("proposed value appended to open enumeration CodeActionKind", "E4:append-open", d))
    if full:
        d = copy.deepcopy(doc)
        _enum(d, "SymbolKind")["values"].append({"name": "VerifValue", "value": 99})
        out.append(("value appended to closed integer enumeration SymbolKind", "E4:append-closed-int", d))
        d = copy.deepcopy(doc)
        d["enumerations"].append({"name": "VerifOpenEnum", "type": B("string"), "supportsCustomValues": True, "values": [{"name": "first", "value": "first"}]})
        _struct(d, LEAF)["properties"].append({"name": "verifKind", "type": R("VerifOpenEnum")})
        out.append(("new open string enumeration used by a required property", "E4:new-open", d))
    return out


def e5_messages(doc, full):
    out = []
    reqs = [
        ("request typeName, params ref, result ref", {"method": "verif/doThing", "typeName": "VerifDoThingRequest", "params": R("HoverParams"), "result": R("Hover"), "messageDirection": "clientToServer"}),
        ("request no typeName, no params, result null", {"method": "verif/ping", "result": B("null"), "messageDirection": "serverToClient"}),
        ("request no typeName, params ref, result T|null, registration options", {"method": "verif/maybeThing", "params": R("HoverParams"), "result": OR(R("Hover"), B("null")), "registrationOptions": R("HoverRegistrationOptions"), "messageDirection": "both"}),
        ("request no typeName, method ends in Request", {"method": "verif/confirmRequest", "params": R("HoverParams"), "result": B("null"), "messageDirection": "serverToClient"}),
        ("request typeName with Request inside", {"method": "verif/requestPermission", "typeName": "VerifRequestPermissionRequest", "params": R("HoverParams"), "result": R("Hover"), "messageDirection": "clientToServer"}),
    ]
    if full:
        reqs += [
            ("request typeName, result array", {"method": "verif/listThings", "typeName": "VerifListThingsRequest", "params": R("HoverParams"), "result": ARR(R("Location")), "messageDirection": "clientToServer", "documentation": "Lists things.", "since": "3.18.0", "proposed": True}),
            ("request no typeName, method starts with request", {"method": "verif/requestAccess", "params": R("HoverParams"), "result": B("null"), "messageDirection": "both"}),
            ("request typeName without Request suffix", {"method": "verif/odd", "typeName": "VerifOdd", "params": R("HoverParams"), "result": R("Hover"), "messageDirection": "clientToServer"}),
            ("request with partial result", {"method": "verif/partial", "typeName": "VerifPartialRequest", "params": R("HoverParams"), "result": OR(ARR(R("Location")), B("null")), "partialResult": ARR(R("Location")), "messageDirection": "clientToServer"}),
        ]
    for label, r in reqs:
        d = copy.deepcopy(doc)
        d["requests"].append(copy.deepcopy(r))
        out.append(("new " + label, "E5:" + label.replace(" ", "-").replace(",", ""), d))
    nots = [
        ("notification typeName, params ref", {"method": "verif/didThing", "typeName": "VerifDidThingNotification", "params": R("HoverParams"), "messageDirection": "clientToServer"}),
        ("notification no typeName, no params", {"method": "verif/tick", "messageDirection": "serverToClient"}),
    ]
    if full:
        nots += [("notification no typeName, params ref, registration options", {"method": "$/verifThing", "params": R("HoverParams"), "registrationOptions": R("HoverRegistrationOptions"), "messageDirection": "both"})]
    for label, n in nots:
        d = copy.deepcopy(doc)
        d["notifications"].append(copy.deepcopy(n))
        out.append(("new " + label, "E5:" + label.replace(" ", "-").replace(",", ""), d))
    return out


def e6_marks(doc, full):
    out = []
    d = copy.deepcopy(doc)
    _struct(d, LEAF)["proposed"] = True
    _struct(d, LEAF)["properties"][0]["proposed"] = True
    out.append(("proposed on structure %s and its first property" % LEAF, "E6:proposed-struct-prop", d))
    d = copy.deepcopy(doc)
    _struct(d, LEAF)["deprecated"] = "use something else"
    _struct(d, LEAF)["properties"][0]["deprecated"] = "gone"
    _struct(d, LEAF)["since"] = "3.19.0"
    _struct(d, LEAF)["sinceTags"] = ["3.6.0", "3.19.0"]
    out.append(("deprecated/since/sinceTags on structure %s" % LEAF, "E6:deprecated-since", d))
    d = copy.deepcopy(doc)
    _struct(d, LEAF)["proposed"] = True
    _struct(d, LEAF)["deprecated"] = "both marks"
    _struct(d, LEAF)["properties"][0]["proposed"] = True
    _struct(d, LEAF)["properties"][0]["deprecated"] = "both marks"
    out.append(("proposed AND deprecated on structure %s and its first property" % LEAF, "E6:proposed-and-deprecated", d))
    if full:
        d = copy.deepcopy(doc)
        e = _enum(d, "MarkupKind")
        e["proposed"] = True
        e["values"][0]["proposed"] = True
        e["values"][0]["deprecated"] = "x"
        out.append(("proposed on enumeration MarkupKind and a value", "E6:proposed-enum", d))
        d = copy.deepcopy(doc)
        for r in d["requests"]:
            if r["method"] == "textDocument/hover":
                r["proposed"] = True
                r["deprecated"] = "x"
        out.append(("proposed/deprecated on request textDocument/hover", "E6:proposed-request", d))
        d = copy.deepcopy(doc)
        for a in d["typeAliases"]:
            if a["name"] == "Pattern":
                a["proposed"] = True
                a["deprecated"] = "x"
        out.append(("proposed on alias Pattern", "E6:proposed-alias", d))
    return out


def e7_removal(doc, full):
    out = []
    d = copy.deepcopy(doc)
    s = _struct(d, "Hover")
    s["properties"] = [p for p in s["properties"] if p["name"] != "range"]
    out.append(("optional property Hover.range removed", "E7:remove-optional", d))
    if full:
        d = copy.deepcopy(doc)
        s = _struct(d, "Diagnostic")
        s["properties"] = [p for p in s["properties"] if p["name"] != "codeDescription"]
        out.append(("optional property Diagnostic.codeDescription removed", "E7:remove-optional-2", d))
    return out


OPERATORS = [e1_new_structure, e2_new_property, e3_inheritance, e4_enums, e5_messages, e6_marks, e7_removal]


def depth1(doc, full):
    out = e0(doc, full)
    for op in OPERATORS:
        out += op(doc, full)
    return out


def depth2_core(doc):
    """Dependent pairs: the second edit refers to what the first one created."""
    out = []
    # new structure -> property / params / extends referring to it
    for label, cls, d1 in e1_new_structure(doc, False)[:1]:
        d = copy.deepcopy(d1)
        _struct(d, LEAF)["properties"].append({"name": "verifRef", "type": R("VerifNewStructure"), "optional": True})
        out.append((label + "; then optional property of that type on %s" % LEAF, cls + ">E2:ref-new", d))
        d = copy.deepcopy(d1)
        _struct(d, BASE)["properties"].append({"name": "verifRefs", "type": ARR(R("VerifNewStructure"))})
        out.append((label + "; then required array property of that type on base %s" % BASE, cls + ">E2:array-ref-new-on-base", d))
        d = copy.deepcopy(d1)
        d["requests"].append({"method": "verif/useNew", "params": R("VerifNewStructure"), "result": OR(R("VerifNewStructure"), B("null")), "messageDirection": "clientToServer"})
        out.append((label + "; then request without typeName using it as params and result", cls + ">E5:uses-new", d))
        d = copy.deepcopy(d1)
        d["structures"].append({"name": "VerifDerivedOfNew", "properties": [{"name": "extra", "type": B("string"), "optional": True}], "extends": [R("VerifNewStructure")]})
        d["notifications"].append({"method": "verif/derivedNotify", "typeName": "VerifDerivedNotification", "params": R("VerifDerivedOfNew"), "messageDirection": "both"})
        out.append((label + "; then a structure extending it used by a new notification", cls + ">E3+E5", d))
    # new property on base -> every derived class shows it; then removed again / made keyword
    d = copy.deepcopy(doc)
    _struct(d, BASE)["properties"].append({"name": "import", "type": OR(R("Position"), B("null"))})
    _struct(d, MIXIN)["properties"].append({"name": "verifFlag", "type": B("boolean"), "optional": True})
    out.append(("null-admitting keyword property on base and optional property on mixin", "E2:base-kw-nulladm>E2:mixin", d))
    # new enum -> array property + map value referring to it
    d = copy.deepcopy(e4_enums(doc, False)[0][2])
    _struct(d, LEAF)["properties"].append({"name": "verifKinds", "type": ARR(R("VerifNewEnum")), "optional": True})
    out.append(("new closed enumeration; property and array property referring to it", "E4:new>E2:array-enum", d))
    # marks on something new
    d = copy.deepcopy(e1_new_structure(doc, False)[0][2])
    d["structures"][-1]["proposed"] = True
    d["structures"][-1]["properties"][0]["proposed"] = True
    _struct(d, LEAF)["properties"].append({"name": "verifRef", "type": R("VerifNewStructure"), "optional": True, "proposed": True})
    out.append(("new proposed structure referenced by a proposed property", "E1>E6>E2", d))
    return out
