"""Runner: `check <ID> --tier quick|thorough [--replay file]` (DESIGN 2.7)."""
from __future__ import annotations

import argparse
import fnmatch
import hashlib
import importlib
import json
import os
import sys
import time
import traceback

VERIF = os.path.dirname(os.path.dirname(os.path.abspath(__file__)))
# the mutant campaign redirects these so that evidence of the real tree is never overwritten
EVIDENCE_DIR = os.environ.get("LSPVERIF_EVIDENCE_DIR") or os.path.join(VERIF, "evidence")
REPLAY_DIR = os.environ.get("LSPVERIF_REPLAY_DIR") or os.path.join(VERIF, "out", "replays")
KNOWN_PATH = os.path.join(VERIF, "known_findings.json")
SCHEMA_PATH = "/root/.vp/EVIDENCE.schema.json"
LOCAL_SCHEMA = os.path.join(VERIF, "lspverif", "EVIDENCE.schema.json")


class Violation:
    """One violating case, reduced to a stable signature."""

    def __init__(self, prop, kind, site, what, replay, node=None, extra=""):
        self.prop = prop
        self.kind = kind          # violation kind, e.g. loss / raise / mistyped / accepted
        self.site = site          # metamodel position of the violating node
        self.extra = extra        # generating alternative / observed reading / exception class
        self.what = what          # one human line
        self.replay = replay      # dict, replayable without the explorer
        self.node = node          # JSON of the violating node (for known-finding predicates)
        self.count = 1
        self.size = len(json.dumps(replay.get("input", replay), default=repr))

    @property
    def sig(self):
        s = "%s:%s:%s" % (self.prop, self.kind, self.site)
        return s + (":" + self.extra if self.extra else "")


class Result:
    def __init__(self):
        self.coverage = {}
        self.violations = {}      # sig -> Violation
        self.assumptions = []
        self.notes = []

    def add(self, v: Violation):
        self.merge_violations([v])

    def merge_violations(self, vs):
        for v in vs:
            old = self.violations.get(v.sig)
            if old is None:
                self.violations[v.sig] = v
            elif v.size < old.size:      # keep the smallest exemplar
                v.count += old.count
                self.violations[v.sig] = v
            else:
                old.count += v.count


class Ctx:
    def __init__(self, prop, tier, seed, workers, replay=None, budget=None):
        self.prop = prop
        self.tier = tier
        self.seed = seed
        self.workers = workers
        self.replay = replay
        self.t0 = time.time()
        self.budget = budget

    @property
    def thorough(self):
        return self.tier == "thorough"

    def elapsed(self):
        return time.time() - self.t0


def load_known():
    if not os.path.exists(KNOWN_PATH):
        return []
    with open(KNOWN_PATH, encoding="utf-8") as f:
        return json.load(f).get("findings", [])


def _has_key(node, key):
    """key may be dotted: a.b means node['a'] is a dict (or list of dicts) having 'b'."""
    parts = key.split(".")
    cur = [node]
    for p in parts:
        nxt = []
        for c in cur:
            if isinstance(c, list):
                c_list = c
            else:
                c_list = [c]
            for cc in c_list:
                if isinstance(cc, dict) and p in cc:
                    nxt.append(cc[p])
        if not nxt:
            return False
        cur = nxt
    return True


def match_known(v: Violation, known):
    for e in known:
        if e.get("status", "known") != "known":
            continue
        if e.get("property") != v.prop:
            continue
        if not fnmatch.fnmatchcase(v.sig, e["match"]):
            continue
        node = v.node
        ok = True
        for k in e.get("node_has", []):
            if not _has_key(node, k):
                ok = False
        for k in e.get("node_lacks", []):
            if _has_key(node, k):
                ok = False
        if "detail_contains" in e and e["detail_contains"] not in v.what:
            ok = False
        if "node_type" in e:
            tn = type(node).__name__
            if tn not in e["node_type"]:
                ok = False
        if ok:
            return e
    return None


def write_replay(v: Violation):
    d = os.path.join(REPLAY_DIR, v.prop)
    os.makedirs(d, exist_ok=True)
    h = hashlib.sha256(v.sig.encode()).hexdigest()[:12]
    safe = "".join(ch if ch.isalnum() or ch in "._-" else "_" for ch in v.sig)[:80]
    path = os.path.join(d, "%s-%s.json" % (safe, h))
    doc = dict(v.replay)
    doc.setdefault("property", v.prop)
    doc["signature"] = v.sig
    doc["what"] = v.what
    doc["count_in_run"] = v.count
    if v.node is not None:
        doc.setdefault("node", v.node)
    with open(path, "w", encoding="utf-8") as f:
        json.dump(doc, f, indent=1, ensure_ascii=False, default=repr)
    return path


def validate_evidence(ev):
    try:
        import jsonschema
    except ImportError:
        return None
    for p in (SCHEMA_PATH, LOCAL_SCHEMA):
        if os.path.exists(p):
            with open(p) as f:
                schema = json.load(f)
            jsonschema.validate(ev, schema)
            return True
    return None


def write_evidence(prop, tier, seed, result: Result, wall, n_viol, n_known, extra=None):
    os.makedirs(EVIDENCE_DIR, exist_ok=True)
    cov = dict(result.coverage)
    cov.setdefault("samples", [])
    ev = {
        "property_id": prop,
        "tier": tier,
        "seed": seed,
        "level": "model_checking",
        "coverage": cov,
        "assumptions": result.assumptions,
        "wall_s": round(wall, 3),
        "violations": n_viol,
        "known_findings_reported": n_known,
        "notes": result.notes,
    }
    if extra:
        ev.update(extra)
    validate_evidence(ev)
    path = os.path.join(EVIDENCE_DIR, prop + ".json")
    tmp = path + ".tmp"
    with open(tmp, "w", encoding="utf-8") as f:
        json.dump(ev, f, indent=1, ensure_ascii=False, default=repr)
    os.replace(tmp, path)
    return path


HASHSEED_PROPS = {"C01", "C02", "C03", "C10", "C11", "C13", "C14", "C15"}


def main(argv=None):
    ap = argparse.ArgumentParser(prog="check")
    ap.add_argument("prop")
    ap.add_argument("--tier", default=os.environ.get("VERIF_TIER", "quick"), choices=["quick", "thorough"])
    ap.add_argument("--replay", default=None)
    ap.add_argument("--workers", type=int, default=int(os.environ.get("LSPVERIF_WORKERS", "0")) or min(16, os.cpu_count() or 1))
    args = ap.parse_args(argv)
    prop = args.prop.upper()
    try:
        seed = int(os.environ.get("VERIF_SEED", "0"))
    except ValueError:
        seed = 0
    os.environ.setdefault("PYTHONHASHSEED", "0")
    mod = importlib.import_module("lspverif.props.%s" % prop.lower())
    ctx = Ctx(prop, args.tier, seed, args.workers, replay=args.replay)

    if args.replay:
        with open(args.replay, encoding="utf-8") as f:
            doc = json.load(f)
        still = mod.replay(ctx, doc)
        if still:
            print("replay: still violates: %s" % still)
            print("VIOLATION property=%s replay=%s" % (prop, args.replay))
            return 1
        print("replay: no violation on the current tree")
        return 0

    t0 = time.time()
    try:
        result = mod.run(ctx)
    except Exception as e:
        tb = traceback.format_exc()
        print(tb)
        # an exception that escapes from the implementation under test (import of the package / the generator
        # fails, a public entry point raises where the harness expects none) is a violation of the property the
        # check was about to decide; anything else is a harness error
        from . import impl
        frames = traceback.extract_tb(e.__traceback__)
        in_repo = [f for f in frames if os.path.realpath(f.filename).startswith(impl.REPO + os.sep)]
        if in_repo or isinstance(e, (ImportError, AttributeError)) and "lsprotocol" in tb:
            v = Violation(prop, "implementation-raises", os.path.relpath(in_repo[-1].filename, impl.REPO) if in_repo else "import",
                          "the implementation raised %s: %s while the check was running (last frame in the repository: %s)" % (
                              type(e).__name__, str(e)[:200], ("%s:%d %s" % (os.path.relpath(in_repo[-1].filename, impl.REPO), in_repo[-1].lineno, in_repo[-1].name)) if in_repo else "-"),
                          {"engine": "runner", "traceback": tb[-3000:], "input": None}, extra=type(e).__name__)
            path = write_replay(v)
            print("VIOLATION property=%s replay=%s" % (prop, path))
            print("  " + v.sig + " :: " + v.what)
            return 1
        print("check %s: internal error (no verdict)" % prop)
        return 2
    wall = time.time() - t0

    known = load_known()
    n_viol = n_known = 0
    lines = []
    matched_entries = set()
    for sig in sorted(result.violations):
        v = result.violations[sig]
        e = match_known(v, known)
        path = write_replay(v)
        if e is not None:
            n_known += 1
            matched_entries.add(e["match"])
            lines.append("KNOWN-FINDING: property=%s %s [%s; %d cases; replay=%s]" % (prop, e["what"], v.sig, v.count, path))
        else:
            n_viol += 1
            lines.append("VIOLATION property=%s replay=%s" % (prop, path))
            lines.append("  " + v.sig + " :: " + v.what + " (%d cases)" % v.count)
    # one KNOWN-FINDING line per listed entry, not per signature
    seen = set()
    for ln in lines:
        if ln.startswith("KNOWN-FINDING"):
            key = ln.split(" [")[0]
            if key in seen:
                continue
            seen.add(key)
        print(ln)
    for e in known:
        if e.get("property") == prop and e.get("status", "known") == "known" and e["match"] not in matched_entries:
            tiers = e.get("tiers")
            if tiers and args.tier not in tiers:
                continue
            result.notes.append("stale known finding (did not reproduce in this run): " + e["match"])
            print("note: known finding %r did not reproduce in this run" % e["match"])
    # configuration sweep (thorough tier of the value-space checks): the quick exploration once more in fresh
    # interpreters under other hash seeds - set/dict iteration order inside cattrs' generated disambiguation and
    # inside the package is part of the configuration a user cannot choose
    if args.tier == "thorough" and prop in HASHSEED_PROPS and not os.environ.get("LSPVERIF_NO_SWEEP"):
        import subprocess
        import tempfile
        sweep = {}
        for hs in ("1", "2"):
            tmp = tempfile.mkdtemp(prefix="lspverif-sweep-", dir=os.environ.get("LSPVERIF_SCRATCH", "/tmp"))
            env = dict(os.environ)
            env.update({"PYTHONHASHSEED": hs, "LSPVERIF_NO_SWEEP": "1", "LSPVERIF_EVIDENCE_DIR": tmp, "LSPVERIF_REPLAY_DIR": REPLAY_DIR})
            try:
                pr = subprocess.run([sys.executable, "-m", "lspverif", prop, "--tier", "quick", "--workers", str(args.workers)],
                                    cwd=VERIF, env=env, capture_output=True, text=True, timeout=3600)
                out_lines = pr.stdout.splitlines()
                rc = pr.returncode
            except subprocess.TimeoutExpired:
                out_lines, rc = [], 0
                result.notes.append("hash-seed sweep under PYTHONHASHSEED=%s timed out (no verdict for it)" % hs)
            finally:
                import shutil
                shutil.rmtree(tmp, ignore_errors=True)
            for i, ln in enumerate(out_lines):
                if ln.startswith("VIOLATION"):
                    n_viol += 1
                    print(ln)
                    if i + 1 < len(out_lines):
                        print(out_lines[i + 1] + " [under PYTHONHASHSEED=%s]" % hs)
            if rc not in (0, 1):
                result.notes.append("hash-seed sweep under PYTHONHASHSEED=%s ended with exit %d (no verdict for it)" % (hs, rc))
            sweep[hs] = out_lines[-1] if out_lines else ""
        result.coverage["hash_seed_configurations"] = {"0": "this run", **sweep}
    write_evidence(prop, args.tier, seed, result, time.time() - t0, n_viol, n_known)
    cov = result.coverage
    print("check %s tier=%s: states=%s transitions=%s traces=%s violations=%d known=%d wall=%.1fs" % (
        prop, args.tier, cov.get("states"), cov.get("transitions"), cov.get("traces_validated_against_impl"),
        n_viol, n_known, wall))
    return 1 if n_viol else 0


if __name__ == "__main__":
    sys.exit(main())
