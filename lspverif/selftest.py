"""Self-test of MM / VSE: every derived value is valid for its type (strictly), nf is idempotent."""
import sys
from . import impl
from .mm import MM, ref
from .vse import VSE


def main():
    mm = MM.load(impl.MODEL_PATH)
    vse = VSE(mm)
    n = bad = 0
    pick = lambda j, t, alts: alts[0]
    for kind, name in mm.roots():
        t = ref(name)
        for gen in (vse.enum(t, 1), vse.enum_max(t, 0)):
            for c, j in gen:
                n += 1
                if not mm.valid(j, t, True):
                    bad += 1
                    print("selftest: derived value not strictly valid:", name, str(j)[:200])
                    continue
                f = mm.nf(j, t, pick)
                if mm.nf(f, t, pick) != f or not mm.nf_match(f, j, t):
                    bad += 1
                    print("selftest: nf not idempotent / not matching:", name, str(j)[:200])
    print("selftest: %d derivations checked, %d problems" % (n, bad))
    return 1 if bad else 0


if __name__ == "__main__":
    sys.exit(main())
