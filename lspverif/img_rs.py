"""IMG-RS: token-level item parser for the subset of Rust the plugin emits (DESIGN 2.3)."""
from __future__ import annotations

import re


class RustParseError(Exception):
    pass


def tokenize(src):
    """-> list of (kind, text) with kind in id / num / str / punct / doc.  Comments are dropped,
    doc comments are kept as one token per line."""
    toks = []
    i, n = 0, len(src)
    while i < n:
        c = src[i]
        if c in " \t\r\n":
            i += 1
            continue
        if src.startswith("//", i):
            j = src.find("\n", i)
            if j < 0:
                j = n
            if src.startswith("///", i) or src.startswith("//!", i):
                toks.append(("doc", src[i:j]))
            i = j
            continue
        if src.startswith("/*", i):
            j = src.find("*/", i + 2)
            if j < 0:
                raise RustParseError("unterminated block comment")
            i = j + 2
            continue
        if c == '"':
            j = i + 1
            while j < n and src[j] != '"':
                if src[j] == "\\":
                    j += 1
                j += 1
            if j >= n:
                raise RustParseError("unterminated string")
            toks.append(("str", src[i + 1:j]))
            i = j + 1
            continue
        if c == "r" and i + 1 < n and src[i + 1] in '#"':
            # raw string r"..." / r#"..."#  or raw identifier r#name (serde sees the name without r#)
            m = re.match(r'r(#*)"', src[i:])
            if m:
                close = '"' + m.group(1)
                j = src.find(close, i + len(m.group(0)))
                if j < 0:
                    raise RustParseError("unterminated raw string")
                toks.append(("str", src[i + len(m.group(0)):j]))
                i = j + len(close)
                continue
            m = re.match(r"r#([A-Za-z_][A-Za-z0-9_]*)", src[i:])
            if m:
                toks.append(("id", m.group(1)))
                i += len(m.group(0))
                continue
        if c.isalpha() or c == "_":
            j = i + 1
            while j < n and (src[j].isalnum() or src[j] == "_"):
                j += 1
            toks.append(("id", src[i:j]))
            i = j
            continue
        if c.isdigit() or (c == "-" and i + 1 < n and src[i + 1].isdigit() and (not toks or toks[-1][1] in ("=", "(", ",", "=>", "{"))):
            j = i + 1
            while j < n and (src[j].isalnum() or src[j] == "_"):
                j += 1
            toks.append(("num", src[i:j]))
            i = j
            continue
        if c == "'":
            # lifetime or char literal
            m = re.match(r"'(\\.|[^\\'])'", src[i:])
            if m:
                toks.append(("str", m.group(0)))
                i += len(m.group(0))
            else:
                j = i + 1
                while j < n and (src[j].isalnum() or src[j] == "_"):
                    j += 1
                toks.append(("id", src[i:j]))
                i = j
            continue
        for p in ("::", "=>", "->", "=="):
            if src.startswith(p, i):
                toks.append(("punct", p))
                i += len(p)
                break
        else:
            toks.append(("punct", c))
            i += 1
    return toks


OPEN = {"(": ")", "[": "]", "{": "}", "<": ">"}
CLOSE = {v: k for k, v in OPEN.items()}


class P:
    def __init__(self, toks):
        self.t = toks
        self.i = 0

    def peek(self, k=0):
        return self.t[self.i + k] if self.i + k < len(self.t) else ("eof", "")

    def next(self):
        x = self.peek()
        self.i += 1
        return x

    def expect(self, text):
        x = self.next()
        if x[1] != text:
            raise RustParseError("expected %r, got %r at token %d" % (text, x, self.i))
        return x

    def skip_balanced(self, open_text):
        """Current token is the opener; skip to after its matching closer ({} [] () only)."""
        close = OPEN[open_text]
        depth = 0
        start = self.i
        while True:
            k, x = self.next()
            if k == "eof":
                raise RustParseError("unbalanced %s" % open_text)
            if k == "punct" and x == open_text:
                depth += 1
            elif k == "punct" and x == close:
                depth -= 1
                if depth == 0:
                    return self.t[start:self.i]

    def attrs(self):
        """Collect doc comments and #[...] attribute stacks."""
        out = []
        while True:
            k, x = self.peek()
            if k == "doc":
                self.next()
                continue
            if k == "punct" and x == "#":
                self.next()
                if self.peek()[1] == "!":
                    self.next()
                body = self.skip_balanced("[")
                out.append(render(body[1:-1]))
                continue
            return out

    def type_until(self, stops):
        """Tokens of a type expression up to one of `stops` at bracket depth 0."""
        depth = 0
        out = []
        while True:
            k, x = self.peek()
            if k == "eof":
                raise RustParseError("eof in type")
            if k == "punct":
                if depth == 0 and x in stops:
                    return render(out)
                if x in ("<", "(", "["):
                    depth += 1
                elif x in (">", ")", "]"):
                    depth -= 1
                    if depth < 0:
                        return render(out)
            out.append(self.next())


def render(toks):
    s = ""
    for k, x in toks:
        if k == "str":
            x = '"%s"' % x if not x.startswith("'") else x
        if s and (s[-1].isalnum() or s[-1] == "_" or s[-1] == '"') and (x[0].isalnum() or x[0] == "_" or x[0] == '"'):
            s += " "
        if x == "," and s:
            s += ", "
            continue
        if x == "=":
            s += " = "
            continue
        s += x
    return s.strip()


def parse(src):
    toks = tokenize(src)
    p = P(toks)
    out = {"structs": {}, "enums": {}, "aliases": {}, "impls": [], "uses": [], "order": []}
    while p.peek()[0] != "eof":
        attrs = p.attrs()
        k, x = p.peek()
        if k == "eof":
            break
        vis = False
        if x == "pub":
            p.next()
            vis = True
            if p.peek()[1] == "(":
                p.skip_balanced("(")
            k, x = p.peek()
        if x == "use":
            p.next()
            out["uses"].append(p.type_until((";",)))
            p.expect(";")
        elif x == "struct":
            p.next()
            name = p.next()[1]
            generics = ""
            if p.peek()[1] == "<":
                generics = p.type_until(("{", ";", "("))
            if name in out["structs"]:
                raise RustParseError("struct %s defined twice" % name)
            fields = []
            if p.peek()[1] == ";":
                p.next()
            else:
                p.expect("{")
                while True:
                    fattrs = p.attrs()
                    if p.peek()[1] == "}":
                        p.next()
                        break
                    fvis = False
                    if p.peek()[1] == "pub":
                        p.next()
                        fvis = True
                    fname = p.next()[1]
                    p.expect(":")
                    ftype = p.type_until((",", "}"))
                    if p.peek()[1] == ",":
                        p.next()
                    fields.append({"name": fname, "type": ftype, "attrs": fattrs, "pub": fvis})
            out["structs"][name] = {"attrs": attrs, "fields": fields, "pub": vis, "generics": generics}
            out["order"].append(("struct", name))
        elif x == "enum":
            p.next()
            name = p.next()[1]
            generics = ""
            if p.peek()[1] == "<":
                generics = p.type_until(("{",))
            if name in out["enums"]:
                raise RustParseError("enum %s defined twice" % name)
            p.expect("{")
            variants = []
            while True:
                vattrs = p.attrs()
                if p.peek()[1] == "}":
                    p.next()
                    break
                vname = p.next()[1]
                payload = None
                discr = None
                if p.peek()[1] == "(":
                    body = p.skip_balanced("(")
                    payload = render(body[1:-1])
                elif p.peek()[1] == "{":
                    body = p.skip_balanced("{")
                    payload = "{" + render(body[1:-1]) + "}"
                if p.peek()[1] == "=":
                    p.next()
                    discr = p.type_until((",", "}"))
                if p.peek()[1] == ",":
                    p.next()
                variants.append({"name": vname, "payload": payload, "discriminant": discr, "attrs": vattrs})
            out["enums"][name] = {"attrs": attrs, "variants": variants, "pub": vis, "generics": generics}
            out["order"].append(("enum", name))
        elif x == "type":
            p.next()
            name = p.next()[1]
            if p.peek()[1] == "<":
                p.type_until(("=",))
            p.expect("=")
            ty = p.type_until((";",))
            p.expect(";")
            if name in out["aliases"]:
                raise RustParseError("type %s defined twice" % name)
            out["aliases"][name] = {"attrs": attrs, "type": ty, "pub": vis}
            out["order"].append(("type", name))
        elif x == "impl":
            start = p.i
            p.next()
            # header up to '{'
            while p.peek()[1] != "{":
                if p.peek()[0] == "eof":
                    raise RustParseError("eof in impl header")
                p.next()
            header = render(p.t[start:p.i])
            body = p.skip_balanced("{")
            out["impls"].append({"header": header, "body": render(body), "tokens": body})
            out["order"].append(("impl", header))
        elif x in ("fn", "mod", "const", "static", "trait", "extern"):
            # not emitted by the plugin; skip conservatively
            while p.peek()[1] not in ("{", ";"):
                p.next()
            if p.peek()[1] == "{":
                p.skip_balanced("{")
            else:
                p.next()
            out["order"].append((x, "?"))
        else:
            raise RustParseError("unexpected token %r at %d" % ((k, x), p.i))
    return out


def serde_rename(attrs):
    for a in attrs:
        if "serde" not in a:
            continue
        m = re.search(r'(?<![_a-zA-Z])rename\s*=\s*"([^"]*)"', a)
        if m:
            return m.group(1)
    return None


def rename_all(attrs):
    for a in attrs:
        m = re.search(r'rename_all\s*=\s*"([^"]*)"', a)
        if m:
            return m.group(1)
    return None


def has_cfg_proposed(attrs):
    return any(re.search(r'cfg\(\s*feature\s*=\s*"proposed"\s*\)', a) for a in attrs)


def is_untagged(attrs):
    return any("serde(" in a and "untagged" in a for a in attrs)


def serde_camel(ident):
    """serde's rename_all = "camelCase" applied to a snake_case field identifier."""
    parts = ident.split("_")
    out = ""
    first = True
    for part in parts:
        if not part:
            continue
        if first:
            out += part
            first = False
        else:
            out += part[:1].upper() + part[1:]
    return out


def norm_type(s):
    return re.sub(r"\s+", "", s)


def strip_box(s):
    prev = None
    while prev != s:
        prev = s
        s = re.sub(r"Box<([^<>]*(?:<[^<>]*>)?[^<>]*)>", r"\1", s)
    return s
