"""C14 - every union in the protocol can be parsed in each of its alternatives."""
from __future__ import annotations

import multiprocessing as mp

from .. import impl
from ..explore import get_mm, root_class, leaf_exc
from ..mm import ref, canon, is_null_type, ANY_ALIASES
from ..vse import VSE
from ..runner import Result, Violation
from .c03 import conf_mm

PROP = "C14"


def resolve_or(mm, t):
    """If t is (an alias chain to) an `or` with >= 2 non-null alternatives return that `or`."""
    seen = 0
    via = None
    while t["kind"] == "reference" and t["name"] in mm.aliases and t["name"] not in ANY_ALIASES and seen < 10:
        via = t["name"]
        t = mm.aliases[t["name"]]["type"]
        seen += 1
    if t["kind"] == "or" and len(t["items"]) >= 2:
        return t, via
    return None, None


def union_sites(mm):
    """[(owner_kind, owner, path, or_type, via_alias)] - declared `or`s and the occurrences reached
    through alias references."""
    sites = []
    for ok, on, path, t in mm.walk_types():
        if t["kind"] == "or":
            if len(t["items"]) >= 2:
                sites.append((ok, on, path, t, None))
        elif t["kind"] == "reference":
            o, via = resolve_or(mm, t)
            if o is not None:
                sites.append((ok, on, path, o, via))
    return sites


def embed(mm, vse, owner_t, path, inner):
    """Value of owner_t that is minimal everywhere except along `path`, where `inner` is placed.
    Returns None if the path cannot be followed."""
    if not path:
        return inner
    step, rest = path[0], path[1:]
    k = owner_t["kind"]
    if k == "reference":
        n = owner_t["name"]
        if n in mm.aliases:
            return embed(mm, vse, mm.aliases[n]["type"], path, inner)
        props = mm.props_of(owner_t)
        if props is None or not step.startswith("."):
            return None
        out = {}
        found = False
        for p in props:
            if "." + p["name"] == step:
                sub = embed(mm, vse, p["type"], rest, inner)
                if sub is None and rest:
                    return None
                out[p["name"]] = sub
                found = True
            elif not p.get("optional"):
                out[p["name"]] = vse.minimal(p["type"])
        return out if found else None
    if k == "literal" and step.startswith("."):
        out = {}
        for p in owner_t["value"].get("properties", []):
            if "." + p["name"] == step:
                out[p["name"]] = embed(mm, vse, p["type"], rest, inner)
            elif not p.get("optional"):
                out[p["name"]] = vse.minimal(p["type"])
        return out
    if k == "array" and step == "[]":
        return [embed(mm, vse, owner_t["element"], rest, inner)]
    if k == "map" and step == "{}":
        key = vse.minimal(owner_t["key"])
        return {str(key): embed(mm, vse, owner_t["value"], rest, inner)}
    if k == "or" and step.startswith("|"):
        return embed(mm, vse, owner_t["items"][int(step[1:])], rest, inner)
    if k == "tuple" and step.startswith("#"):
        i = int(step[1:])
        return [embed(mm, vse, it, rest, inner) if x == i else vse.minimal(it) for x, it in enumerate(owner_t["items"])]
    if k == "and":
        return None
    return None


LONG = (101, 1025)          # array lengths beyond any "first N items" shortcut a hook may take


def _reorder(v, how):
    """The same JSON value with the members of every object in another order (JSON objects are unordered)."""
    if isinstance(v, dict):
        items = [(k, _reorder(x, how)) for k, x in v.items()]
        if how == "reversed":
            items.reverse()
        elif how == "rotated" and len(items) > 1:
            items = items[1:] + items[:1]
        return dict(items)
    if isinstance(v, list):
        return [_reorder(x, how) for x in v]
    return v


def shapes(mm, vse, alt, k, site_or=None):
    """Representative shapes of one alternative: cost <= k neighbourhood from the minimal base, the
    maximal value, and for array alternatives every ordered pair of element shapes (cost <= 1);
    object shapes also with their members in reversed / rotated order; array alternatives also as long
    arrays (label "long"); a string alternative next to structure alternatives (site_or) also with the
    property names of those structures as the string."""
    import json as _json
    seen = set()
    out = []

    def add(label, v):
        c = canon(v)
        if c not in seen:
            seen.add(c)
            out.append((label, v))
            if label != "pair" and (isinstance(v, dict) and len(v) > 1 or isinstance(v, list) and v and isinstance(v[0], dict) and len(v[0]) > 1):
                for how in ("reversed", "rotated"):
                    w = _reorder(v, how)
                    ck = "order:" + _json.dumps(w)
                    if ck not in seen and _json.dumps(w) != _json.dumps(v):
                        seen.add(ck)
                        out.append((label + "/" + how, w))
    for c, v in vse.enum(alt, k):
        add("min+%d" % c, v)
    try:
        add("max", vse.maximal(alt))
        for c, v in vse.enum_max(alt, 1):
            add("max-%d" % c, v)
            if len(out) > 4000:
                break
    except RecursionError:
        pass
    t = alt
    hops = 0
    while t["kind"] == "reference" and t["name"] in mm.aliases and t["name"] not in ANY_ALIASES and hops < 10:
        t = mm.aliases[t["name"]]["type"]
        hops += 1
    if t["kind"] == "array":
        all_elems = [v for c, v in vse.enum(t["element"], 1)]
        for a in all_elems:
            add("single", [a])
        # pairs: elements with a structural deviation first (enum/primitive variations rarely interact)
        elems = _diverse(all_elems, 40)
        for a in elems:
            for b in elems:
                add("pair", [a, b])
        # long arrays: a homogeneous prefix followed by one element of another shape (and the reverse)
        few = _diverse(all_elems, 5)
        for n in LONG:
            for a in few:
                for b in few:
                    v = [a] * (n - 1) + [b]
                    c = "long:%d:%s:%s" % (n, canon(a), canon(b))
                    if c not in seen:
                        seen.add(c)
                        out.append(("long", v))
    if site_or is not None and t["kind"] == "base" and t["name"] in ("string", "DocumentUri", "URI"):
        names = []

        def collect(it, depth=0):
            if depth > 6:
                return
            k = it["kind"]
            if k == "reference" and it["name"] in mm.aliases and it["name"] not in ANY_ALIASES:
                collect(mm.aliases[it["name"]]["type"], depth + 1)
                return
            if k == "or":
                for x in it["items"]:
                    collect(x, depth + 1)
                return
            if k == "array":
                collect(it["element"], depth + 1)
                return
            try:
                ps = mm.props_of(it) if k in ("reference", "literal", "and") else None
            except Exception:  # noqa: BLE001
                ps = None
            for p in ps or []:
                if p["name"] not in names:
                    names.append(p["name"])
        for it in site_or["items"]:
            collect(it)
        for nm in names:
            add("keyname", nm)
            add("keyname", "a-" + nm + "-b")
        # strings that *look like* a sibling alternative (a number, a pair, a boolean, null, JSON text): a hook that
        # tries the other alternative first and falls back on failure turns "42" into 42 or into the pair (4, 2)
        for sv in ("42", "007", " 7 ", "1_000", "0", "-1", "1.5", "1e3", "true", "null", "[1, 2]", "{}", "\u0664\u0662", "ab", "12ab"):
            add("lookalike", sv)
    return out


def _diverse(values, n):
    """At most n values, preferring distinct key sets / shapes over value variations of the same shape."""
    seen, first, rest = set(), [], []
    for v in values:
        sig = _shape_sig(v)
        if sig in seen:
            rest.append(v)
        else:
            seen.add(sig)
            first.append(v)
    return (first + rest)[:n]


def _shape_sig(v, depth=0):
    if isinstance(v, dict):
        return "{" + ",".join("%s:%s" % (k, _shape_sig(x, depth + 1) if depth < 2 else "") for k, x in sorted(v.items())) + "}"
    if isinstance(v, list):
        return "[" + ",".join(_shape_sig(x, depth + 1) for x in v[:2]) + "]"
    return type(v).__name__


def roots_for_site(mm, ok, on, path):
    """(root name, type of the root, path inside it) where the site can be reached by structuring."""
    if ok == "structure":
        return [(on, ref(on), path)]
    if ok == "alias":
        return [(on, ref(on), path)]
    if ok == "method":
        env = mm.envelopes()
        out = []
        for name, e in env.items():
            if e.get("method") == on:
                if path[0] == "params" and e["role"] in ("request", "notification"):
                    out.append((name, ref(name), (".params",) + path[1:]))
                if path[0] == "result" and e["role"] == "response":
                    out.append((name, ref(name), (".result",) + path[1:]))
        return out
    return []


def _site_task(args):
    idx, k = args
    mm = get_mm()
    vse = VSE(mm)
    conv = impl.converter()
    ok, on, path, ort, via = union_sites(mm)[idx]
    label = "%s%s%s" % (on, ":" if ok == "method" else "", "".join(path))
    res = {"site": label, "via": via, "alts": {}, "execs": 0, "viols": [], "unreachable": None, "sample": None,
           "states": 0, "transitions": 0, "invalid_skipped": 0}
    roots = [r for r in roots_for_site(mm, ok, on, path) if root_class(r[0]) is not None]
    if not roots:
        res["unreachable"] = "no generated type to structure into (%s %s)" % (ok, path[0] if path else "")
        return res
    for ai, alt in enumerate(ort["items"]):
        akey = "%d:%s" % (ai, alt.get("name") or alt["kind"])
        n = 0
        for slabel, v in ([("null", None)] if is_null_type(alt) else shapes(mm, vse, alt, k, site_or=ort)):
            for rname, rt, rpath in roots:
                j = embed(mm, vse, rt, rpath, v)
                if j is None and rpath:
                    continue
                if not mm.valid(j, rt, True):
                    res["invalid_skipped"] += 1
                    continue
                n += 1
                res["execs"] += 1
                cls = root_class(rname)
                try:
                    o = conv.structure(j, cls)
                except Exception as e:  # noqa: BLE001
                    en, em = leaf_exc(e)
                    res["viols"].append(Violation(
                        PROP, "raise", label, "union %s alternative %s (%s) placed in %s: structure raises %s: %s" % (label, akey, slabel, rname, en, em),
                        {"engine": "VSE", "root": rname, "input": j, "site": label, "alternative": akey, "shape": slabel, "observed": [en, em]},
                        node=v, extra="%s:%s" % (akey, en)))
                    continue
                out = []
                conf_mm(mm, o, j, rt, rname, out)
                if out:
                    res["viols"].append(Violation(
                        PROP, "mistyped", label, "union %s alternative %s (%s) placed in %s: %s" % (label, akey, slabel, rname, out[0]),
                        {"engine": "VSE", "root": rname, "input": j, "site": label, "alternative": akey, "shape": slabel, "observed": [list(map(str, x)) for x in out[:3]]},
                        node=v, extra="%s:%s" % (akey, out[0][1])))
                if res["sample"] is None and ai == len(ort["items"]) - 1:
                    res["sample"] = {"site": label, "alternative": akey, "shape": slabel, "root": rname, "input": j}
        res["alts"][akey] = n
    res["states"] = vse.states
    res["transitions"] = vse.transitions
    return res


def run(ctx):
    mm = get_mm()
    res = Result()
    impl.converter()
    sites = union_sites(mm)
    k = 2 if ctx.thorough else 1
    tasks = [(i, k) for i in range(len(sites))]
    with mp.get_context("fork").Pool(ctx.workers) as pool:
        results = pool.map(_site_task, tasks, chunksize=1)
    table = {}
    execs = states = transitions = 0
    unreachable = {}
    alts_total = 0
    for r in results:
        for v in r["viols"]:
            res.add(v)
        execs += r["execs"]
        states += r["states"]
        transitions += r["transitions"]
        if r["unreachable"]:
            unreachable[r["site"]] = r["unreachable"]
            continue
        table[r["site"]] = r["alts"]
        for akey, n in r["alts"].items():
            alts_total += 1
            if n == 0:
                res.add(Violation(PROP, "vacuous", r["site"], "no execution reached alternative %s of union %s" % (akey, r["site"]),
                                  {"engine": "VSE", "site": r["site"], "alternative": akey, "input": None}, extra=akey))
    declared = sum(1 for s in sites if s[4] is None)
    res.coverage = {
        "states": states + len(sites), "transitions": transitions + alts_total,
        "traces_validated_against_impl": execs, "evaluations": execs,
        "distinct_nontrivial": alts_total,
        "rule": "every union occurrence (declared `or`, or reference to an `or` alias) x every alternative x "
                "shapes {cost<=%d neighbourhood of the minimal value, maximal value and its cost-1 neighbours, for arrays all ordered pairs of "
                "cost<=1 elements} embedded in the otherwise minimal owner root; distinct_nontrivial = (site, alternative) pairs executed" % k,
        "union_sites": len(sites), "declared_or_sites": declared, "through_alias": len(sites) - declared,
        "sites_executed": len(table), "sites_without_parse_position": unreachable,
        "site_alternative_table": table,
        "exhaustive": True,
        "samples": [r["sample"] for r in results if r["sample"]][:3],
    }
    res.assumptions = ["partialResult / registrationOptions / errorData unions have no generated class to structure into and are listed, not executed",
                       "alias-rooted sites of the 14 unresolved aliases are C01's known finding; their unions are exercised through owner roots"]
    return res


def replay(ctx, doc):
    mm = get_mm()
    conv = impl.converter()
    cls = root_class(doc["root"])
    try:
        o = conv.structure(doc["input"], cls)
    except Exception as e:  # noqa: BLE001
        return "raises %s %s" % leaf_exc(e)
    out = []
    conf_mm(mm, o, doc["input"], ref(doc["root"]), doc["root"], out)
    return str(out[:2]) if out else None
