"""C15 - unknown properties are ignored (forward compatibility)."""
from __future__ import annotations

import copy

import attrs

from .. import impl
from ..explore import explore_roots, get_mm, root_class, leaf_exc, jround
from ..mm import ref, ANY_ALIASES
from ..runner import Result, Violation

PROP = "C15"

NAMES = ["zzVerifUnknown", "x-unknown", "_", "Kind", ""]


def _deep(n=600):
    v = 1
    for _ in range(n):
        v = [v]
    return v


DEEP_PAYLOAD = _deep()      # an unknown property's payload is never looked at: its depth cannot matter
PAYLOADS = [None, 1, "s", [], {"a": [1]}]


def object_nodes(mm, j, t, path=()):
    """Paths of the protocol-object nodes of j read as t: nodes that are a structure / envelope /
    literal-with-properties under every strictly valid reading (payloads of LSPAny, LSPObject, maps
    and property-less objects are data, not protocol objects)."""
    k = t["kind"]
    if k == "or":
        alts = [it for it in t["items"] if mm.valid(j, it, True)]
        if not alts:
            return []
        sets = [set(map(tuple, object_nodes(mm, j, it, path))) for it in alts]
        common = set.intersection(*sets) if sets else set()
        return [p for p in sets[0] if p in common] if sets else []
    if k == "reference":
        n = t["name"]
        if n in mm.aliases:
            if n in ANY_ALIASES:
                return []
            return object_nodes(mm, j, mm.aliases[n]["type"], path)
        if n in mm.enums:
            return []
        props = mm.props_of(t)
        if not props and isinstance(j, dict) and hasattr(root_class(n), "__attrs_attrs__"):
            # a *named* structure that declares no property (InitializedParams) is still a protocol
            # object with a generated class: unknown properties on it must be ignored (seeded W7-C15-M2)
            return [path]
        return _obj_nodes(mm, j, props, path)
    if k == "literal":
        return _obj_nodes(mm, j, t["value"].get("properties", []), path)
    if k == "and":
        return _obj_nodes(mm, j, mm.and_props(t), path)
    if k == "array" and isinstance(j, list):
        out = []
        for i, x in enumerate(j):
            out += object_nodes(mm, x, t["element"], path + (i,))
        return out
    if k == "tuple" and isinstance(j, list):
        out = []
        for i, (x, it) in enumerate(zip(j, t["items"])):
            out += object_nodes(mm, x, it, path + (i,))
        return out
    if k == "map" and isinstance(j, dict):
        out = []
        for kk, x in j.items():
            out += object_nodes(mm, x, t["value"], path + (kk,))
        return out
    return []


def _obj_nodes(mm, j, props, path):
    if not props or not isinstance(j, dict):
        return []
    out = [path]
    for p in props:
        if p["name"] in j and j[p["name"]] is not None:
            out += object_nodes(mm, j[p["name"]], p["type"], path + (p["name"],))
    return out


def declared_at(mm, j, t, path):
    """Declared property names of the protocol object at `path` of j read as t (first strictly valid reading)."""
    cur_t, cur = t, j
    steps = list(path)

    def props_of(tt, val):
        k = tt["kind"]
        if k == "or":
            for it in tt["items"]:
                if mm.valid(val, it, True):
                    r = props_of(it, val)
                    if r is not None:
                        return r
            return None
        if k == "reference" and tt["name"] in mm.aliases and tt["name"] not in ANY_ALIASES:
            return props_of(mm.aliases[tt["name"]]["type"], val)
        return mm.props_of(tt) if k in ("reference", "literal", "and") else None

    def descend(tt, val, rest):
        if not rest:
            return props_of(tt, val)
        k = tt["kind"]
        step = rest[0]
        if k == "or":
            for it in tt["items"]:
                if mm.valid(val, it, True):
                    r = descend(it, val, rest)
                    if r is not None:
                        return r
            return None
        if k == "reference" and tt["name"] in mm.aliases and tt["name"] not in ANY_ALIASES:
            return descend(mm.aliases[tt["name"]]["type"], val, rest)
        if k == "array" and isinstance(step, int):
            return descend(tt["element"], val[step], rest[1:])
        if k == "tuple" and isinstance(step, int):
            return descend(tt["items"][step], val[step], rest[1:])
        if k == "map":
            return descend(tt["value"], val[step], rest[1:])
        ps = props_of(tt, val)
        if ps is None:
            return None
        for p in ps:
            if p["name"] == step and step in val:
                return descend(p["type"], val[step], rest[1:])
        return None
    return descend(cur_t, cur, steps)


def resembling_names(props):
    """Undeclared names that resemble declared ones: snake_case, UpperCamel, trailing underscore, other case."""
    from ..mm import snake, upper_camel
    declared = {p["name"] for p in props}
    out = []
    # by kind across ALL declared names (the Python attribute spelling of every multi-word / keyword name first:
    # a hook that also accepts attribute names as aliases reads exactly those), then the other look-alikes
    names_all = [p["name"] for p in props]
    for kind in (snake, lambda n: n + "_", upper_camel, lambda n: "_" + n, str.upper, str.lower):
        for n in names_all:
            cand = kind(n)
            if cand not in declared and cand not in out:
                out.append(cand)
        if len(out) >= 12:
            break
    out = out[:12]
    # fragments and concatenations of declared names (a key test written as a substring / prefix test)
    names = [p["name"] for p in props]
    frag = []
    for n in names[:3]:
        if len(n) >= 4:
            frag += [n[:len(n) // 2], n[len(n) // 2:], n[1:], n[:-1], n[:1]]
    if len(names) >= 2:
        frag += [names[0] + names[1], names[1] + names[0]]
    for cand in frag:
        if cand and cand not in declared and cand not in out:
            out.append(cand)
    return out[:20]


_SIBLINGS = {}


def sibling_fragments(mm, props):
    """Fragments of the property names that *other alternatives* of a union declare next to a structure with
    exactly these properties (hooks tell alternatives apart by such names; a key test that is really a
    substring / prefix test shows with a fragment).  Never a declared name of any of the alternatives."""
    key = tuple(sorted(p["name"] for p in props))
    if not _SIBLINGS:
        byset = {}
        for ok, on, path, t in mm.walk_types():
            if t["kind"] != "or":
                continue
            alts = []
            for it in t["items"]:
                if it["kind"] in ("reference", "literal", "and"):
                    try:
                        ps = mm.props_of(it)
                    except Exception:  # noqa: BLE001
                        ps = None
                    if ps:
                        alts.append(tuple(sorted(p["name"] for p in ps)))
            for a in alts:
                for b in alts:
                    if a != b:
                        byset.setdefault(a, set()).update(set(b) - set(a))
        _SIBLINGS.update(byset)
        _SIBLINGS[("__built__",)] = set()
    sib = _SIBLINGS.get(key, set())
    declared = set(key)
    out = []
    for n in sorted(sib):
        cands = [n[:len(n) // 2], n[len(n) // 2:], n[1:], n[:-1]] if len(n) >= 4 else [n + n]
        for c in cands:
            if c and c not in declared and c not in sib and c not in out:
                out.append(c)
    ss = sorted(sib)
    if len(ss) >= 2:
        out.append(ss[0] + ss[1])
    return out[:10]


def insert(j, path, name, payload):
    """Copy of j with `name: payload` added to the object at path; only the containers along the path are copied
    (the converter never mutates its input)."""
    def cp(x):
        return dict(x) if isinstance(x, dict) else list(x)
    j2 = cp(j)
    cur = j2
    for step in path:
        cur[step] = cp(cur[step])
        cur = cur[step]
    cur[name] = payload if payload is DEEP_PAYLOAD else copy.deepcopy(payload)
    return j2


def combos(full):
    if full:
        return [(n, p) for n in NAMES for p in PAYLOADS]
    return [(n, PAYLOADS[4]) for n in NAMES] + [(NAMES[0], p) for p in PAYLOADS[:4]]


def _first_difference(a, b, path="", depth=0):
    """Where two structured results differ (attribute path and the two class names) - cheap, no full repr."""
    if type(a) is not type(b):
        return "%s: %s instead of %s" % (path or ".", type(b).__name__, type(a).__name__)
    if depth < 30 and attrs.has(type(a)):
        for f in attrs.fields(type(a)):
            x, y = getattr(a, f.name, None), getattr(b, f.name, None)
            if x != y:
                return _first_difference(x, y, path + "." + f.name, depth + 1)
    if depth < 30 and isinstance(a, (list, tuple)) and len(a) == len(b):
        for i, (x, y) in enumerate(zip(a, b)):
            if x != y:
                return _first_difference(x, y, "%s[%d]" % (path, i), depth + 1)
    return "%s: %s" % (path or ".", repr(b)[:120])


def run_one(mm, name, j, path, uname, payload, base=None):
    conv = impl.converter()
    cls = root_class(name)
    if base is None:
        o = conv.structure(j, cls)
        u = jround(conv.unstructure(o, cls))
    else:
        o, u = base
    jp = insert(j, path, uname, payload)
    try:
        o2 = conv.structure(jp, cls)
    except Exception as e:  # noqa: BLE001
        return "raise", list(leaf_exc(e)), jp
    if o2 != o:
        return "result-differs", _first_difference(o, o2), jp
    u2 = jround(conv.unstructure(o2, cls))
    if u2 != u:
        return "json-differs", u2, jp
    return "ok", None, jp


def judge(mm, name, j, opts):
    conv = impl.converter()
    cls = root_class(name)
    try:
        o = conv.structure(j, cls)
        u = jround(conv.unstructure(o, cls))
    except Exception:  # noqa: BLE001 - C01's subject
        return 1, "base-fails(C01)", []
    if not mm.nf_match(u, j, ref(name)):
        return 1, "base-fails(C01)", []
    nodes = object_nodes(mm, j, ref(name))
    n = 1
    vs = []
    nbad = [0]
    for path in nodes:
        node_combos = list(combos(opts.get("full")))
        props = declared_at(mm, j, ref(name), path)
        if props:
            cur = j
            for stp in path:
                cur = cur[stp]
            for rn in resembling_names(props):
                if rn not in cur:
                    node_combos.append((rn, "s"))
                    node_combos.append((rn, {"a": [1]}))
            for rn in sibling_fragments(mm, props):
                if rn not in cur:
                    node_combos.append((rn, "s"))
        node_combos.append((NAMES[0], DEEP_PAYLOAD))
        for uname, payload in node_combos:
            n += 1
            st, obs, jp = run_one(mm, name, j, path, uname, payload, base=(o, u))
            if st != "ok":
                nbad[0] += 1
                if nbad[0] > 40:
                    continue            # enough exemplars from this one value; the verdict is already "affected"
                # site: class of the node = innermost declaration on the path is not tracked; use root + key path
                site = name + "".join("." + s if isinstance(s, str) else "[]" for s in path)
                deep = payload is DEEP_PAYLOAD
                vs.append(Violation(PROP, st, site, "unknown property %r%s added at %s: %s %s" % (uname, " (payload: 600 nested arrays)" if deep else "", site, st, str(obs)[:120]),
                                    {"engine": "VSE", "root": name, "input": j, "path": list(path), "name": uname, "payload": "<deep-600>" if deep else payload,
                                     "observed": obs}, node=None if deep else jp, extra=obs[0] if st == "raise" else ""))
    return n, "ignored" if not vs else "affected", vs


def _site_task(args):
    """Union-site shapes of C14 (single-element and heterogeneous arrays, maximal alternatives) as base values."""
    idx, k, full = args
    from . import c14
    from ..vse import VSE
    from ..mm import is_null_type
    mm = get_mm()
    vse = VSE(mm)
    ok, on, path, ort, via = c14.union_sites(mm)[idx]
    n = 0
    vs = []
    roots = [r for r in c14.roots_for_site(mm, ok, on, path) if root_class(r[0]) is not None and r[0] not in mm.aliases]
    for alt in ort["items"]:
        if is_null_type(alt):
            continue
        for slabel, v in [x for x in c14.shapes(mm, vse, alt, k, site_or=ort) if x[0] not in ("long", "keyname", "lookalike") and "/" not in x[0]]:
            if slabel.startswith("max-") or (slabel == "pair" and not full):
                continue
            for rname, rt, rpath in roots:
                j = c14.embed(mm, vse, rt, rpath, v)
                if j is None or not mm.valid(j, rt, True):
                    continue
                ne, oc, out = judge(mm, rname, j, {"full": False})
                n += ne
                vs += out
    return n, vs, vse.states, vse.transitions


def run(ctx):
    mm = get_mm()
    res = Result()
    lsp = impl.lsp()
    roots = [n for k, n in mm.roots() if hasattr(lsp, n)]
    kmin, kmax = (2, 0) if ctx.thorough else (1, 0)
    opts = {"cap_s": 900 if ctx.thorough else 120, "full": ctx.thorough}
    a, v = explore_roots(ctx, judge, roots, kmin, kmax, opts)
    res.merge_violations(v)
    import multiprocessing as mp
    from . import c14
    nsites = len(c14.union_sites(mm))
    with mp.get_context("fork").Pool(ctx.workers) as pool:
        parts = pool.map(_site_task, [(i, 1, ctx.thorough) for i in range(nsites)], chunksize=2)
    for n_, vs_, st_, tr_ in parts:
        a["evals"] += n_
        a["states"] += st_
        a["transitions"] += tr_
        res.merge_violations(vs_)
    res.coverage = {
        "states": a["states"], "transitions": a["transitions"],
        "traces_validated_against_impl": a["evals"], "evaluations": a["evals"],
        "distinct_nontrivial": a["distinct_nt"],
        "rule": "every VSE derivation (k<=%d, plus the maximal value) of every root x every protocol-object node x %s of fresh names %s and "
                "payloads %s; plus the union-site shapes of C14 (minimal, maximal, single-element arrays; thorough: heterogeneous pairs) as base "
                "values; at every node additionally up to 6 undeclared names that resemble the node's declared ones (snake_case, UpperCamel, "
                "trailing/leading underscore, other case) x 2 payloads; structure(j+) must succeed, equal structure(j) and re-serialise identically" % (
                    kmin, "all 20 combinations" if ctx.thorough else "8 combinations (each name, each payload)", NAMES, PAYLOADS),
        "roots": a["roots"], "outcome_classes": a["outcomes"], "capped_roots": a["capped"], "exhaustive": not a["capped"],
        "samples": a["samples"],
    }
    res.assumptions = ["names are declared nowhere in the metamodel; payload nodes of LSPAny/LSPObject/maps/property-less literals are data and excluded (property-less named structures with a generated class are included)",
                       "base values that already violate C01 are skipped"]
    return res


def replay(ctx, doc):
    mm = get_mm()
    try:
        st, obs, _ = run_one(mm, doc["root"], doc["input"], tuple(doc["path"]), doc["name"], DEEP_PAYLOAD if doc["payload"] == "<deep-600>" else doc["payload"])
    except Exception as e:  # noqa: BLE001
        return "base value fails: %r" % (e,)
    return None if st == "ok" else "%s %s" % (st, str(obs)[:200])
