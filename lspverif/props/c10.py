"""C10 - null-versus-omitted rule for every property of every class."""
from __future__ import annotations

import multiprocessing as mp

from .. import impl
from ..explore import get_mm, root_class, leaf_exc, jround
from ..mm import ref, admits_null, snake, canon, json_eq
from ..vse import VSE
from ..runner import Result, Violation
from .c02 import build, Picker, Unsupported

PROP = "C10"


def surroundings(mm, vse, name, thorough):
    t = ref(name)
    seen = set()
    out = []
    gens = [("min", vse.enum(t, 1))]
    if thorough:
        gens.append(("max", vse.enum_max(t, 1)))
    else:
        gens.append(("max", vse.enum_max(t, 0)))
    for label, g in gens:
        n = 0
        for c, j in g:
            cj = canon(j)
            if cj in seen:
                continue
            seen.add(cj)
            out.append((label, c, j))
            n += 1
            if n >= 400:
                break
    return out


def _task(args):
    name, thorough = args
    mm = get_mm()
    vse = VSE(mm)
    conv = impl.converter()
    cls = root_class(name)
    is_env = name in mm.envelopes()
    props = mm.props_of(ref(name))
    always = mm.envelopes()[name]["always"] if is_env else ()
    execs = 0
    viols = []
    table = {}
    sample = None

    def bad(kind, prop, what, j, observed):
        viols.append(Violation(PROP, kind, "%s.%s" % (name, prop), what,
                               {"engine": "VSE", "root": name, "attribute": prop, "input": j, "observed": observed},
                               node=j))

    for label, c, j in surroundings(mm, vse, name, thorough):
        for p in props:
            pn = p["name"]
            attr = snake(pn)
            lit = p["type"]["kind"] == "stringLiteral"
            nulladm = admits_null(p["type"])
            special = lit or nulladm or pn in always
            omit_unset = bool(p.get("omit_when_unset"))
            entry = table.setdefault(pn, {"unset": 0, "set": 0, "parse_absent": 0})
            # ---- serialise, attribute unset (constructor path)
            unset_is_a_state = p.get("optional") or lit or nulladm or (
                pn in always and (mm.valid(None, p["type"]) or p["type"]["kind"] == "stringLiteral"))
            if unset_is_a_state:
                ju = {k: v for k, v in j.items() if k != pn}
                try:
                    obj, _ = build(mm, ju, ref(name), Picker([]), None, False)
                    u = jround(conv.unstructure(obj, cls))
                    execs += 1
                    entry["unset"] += 1
                    present = pn in u
                    if omit_unset:
                        if present and u[pn] is not None:
                            bad("unset-written", pn, "%s.%s unset but serialised as %r" % (name, pn, u[pn]), ju, u)
                    elif special:
                        want = p["type"]["value"] if lit else None
                        if not present:
                            bad("omitted", pn, "%s.%s is %s and must always be written, but it is omitted when unset" % (
                                name, pn, "a literal" if lit else "null-admitting" if nulladm else "an envelope field"), ju, u)
                        elif not json_eq(u[pn], want):
                            bad("unset-value", pn, "%s.%s unset is written as %r instead of %r" % (name, pn, u[pn], want), ju, u)
                    else:
                        if present:
                            bad("unset-written", pn, "%s.%s is optional, not null-admitting and unset, but key is written (%r)" % (name, pn, u[pn]), ju, u)
                except Unsupported:
                    pass
                except Exception as e:  # noqa: BLE001
                    execs += 1
                    bad("raise-unset", pn, "%s without %s: constructor/unstructure raises %s: %s" % ((name, pn) + leaf_exc(e)), ju, list(leaf_exc(e)))
            # ---- serialise, attribute set
            if pn in j and j[pn] is not None:
                js = j
            else:
                js = dict(j)
                js[pn] = vse.minimal(p["type"])
            if js[pn] is not None:
                try:
                    obj, _ = build(mm, js, ref(name), Picker([]), None, False)
                    u = jround(conv.unstructure(obj, cls))
                    execs += 1
                    entry["set"] += 1
                    if pn not in u or u[pn] is None:
                        bad("set-omitted", pn, "%s.%s is set but %s" % (name, pn, "omitted" if pn not in u else "written as null"), js, u)
                    if sample is None:
                        sample = {"root": name, "attribute": pn, "state": "set", "surrounding": label, "input": js, "output": u}
                except Unsupported:
                    pass
                except Exception as e:  # noqa: BLE001
                    execs += 1
                    bad("raise-set", pn, "%s with %s set: constructor/unstructure raises %s: %s" % ((name, pn) + leaf_exc(e)), js, list(leaf_exc(e)))
            # ---- parse, property absent although null-admitting / literal
            if lit or nulladm:
                ja = {k: v for k, v in j.items() if k != pn}
                execs += 1
                entry["parse_absent"] += 1
                try:
                    o = conv.structure(ja, cls)
                    got = getattr(o, attr, "<no attribute>")
                    want = p["type"]["value"] if lit else None
                    if got != want:
                        bad("parse-absent-value", pn, "%s parsed without %s reads %r instead of %r" % (name, pn, got, want), ja, repr(got))
                except Exception as e:  # noqa: BLE001
                    bad("parse-absent-raise", pn, "%s parsed without the %s property %s raises %s: %s" % (
                        (name, "literal" if lit else "null-admitting", pn) + leaf_exc(e)), ja, list(leaf_exc(e)))
    return {"root": name, "execs": execs, "viols": viols, "table": table, "sample": sample,
            "states": vse.states, "transitions": vse.transitions}


def special_vector(mm, name):
    props = mm.props_of(ref(name))
    always = mm.envelopes()[name]["always"] if name in mm.envelopes() else ()
    return tuple(sorted((p["name"], bool(p["type"]["kind"] == "stringLiteral" or admits_null(p["type"]) or p["name"] in always)) for p in props))


def collision_pairs(mm, roots):
    """Ordered pairs of classes that are forced to collide in anything keyed more coarsely than the class:
    (1) identical attribute-name sets but different always-written vectors; (2) for every attribute name that
    is always-written in one class and omittable in another, the first class of each kind."""
    vec = {n: special_vector(mm, n) for n in roots}
    pairs = []
    by_names = {}
    for n, v in vec.items():
        by_names.setdefault(tuple(k for k, _ in v), []).append(n)
    for names, group in by_names.items():
        if len(group) < 2 or not names:
            continue
        seen_vecs = {}
        for n in group:
            seen_vecs.setdefault(vec[n], n)
        reps = list(seen_vecs.values())
        for a in reps:
            for b in reps:
                if a != b:
                    pairs.append((a, b, "same attribute names %s" % (list(names),)))
    first = {}
    for n, v in vec.items():
        for k, sp in v:
            first.setdefault((k, sp), n)
    for (k, sp), n in sorted(first.items()):
        other = first.get((k, not sp))
        if sp and other and (n, other) not in [(a, b) for a, b, _ in pairs]:
            pairs.append((n, other, "attribute %s always written in %s, omittable in %s" % (k, n, other)))
            pairs.append((other, n, "attribute %s omittable in %s, always written in %s" % (k, other, n)))
    return pairs


def _pair_task(args):
    """Freshly forked from the pristine parent (maxtasksperchild=1): class A is used first, then class B."""
    a, b, why = args
    ra = _task((a, False))
    rb = _task((b, False))
    out = []
    for r, first in ((rb, a), (ra, None)):
        for v in r["viols"]:
            if first:
                v.what = "after %s was (de)serialised first in the process (%s): %s" % (first, why, v.what)
                v.replay["history"] = [first, r["root"]]
            out.append(v)
    return {"pair": (a, b), "execs": ra["execs"] + rb["execs"], "viols": out}


def run(ctx):
    mm = get_mm()
    res = Result()
    lsp = impl.lsp()
    impl.converter()
    roots = [n for k, n in mm.roots(True, False, True) if hasattr(lsp, n)]
    # collision histories first, each in a process forked from this pristine one
    pairs = collision_pairs(mm, roots)
    with mp.get_context("fork").Pool(ctx.workers, maxtasksperchild=1) as pool:
        presults = pool.map(_pair_task, pairs, chunksize=1)
    pair_execs = 0
    for pr in presults:
        pair_execs += pr["execs"]
        for v in pr["viols"]:
            res.add(v)
    with mp.get_context("fork").Pool(ctx.workers) as pool:
        results = pool.map(_task, [(n, ctx.thorough) for n in roots], chunksize=2)
    execs = pair_execs
    states = transitions = 0
    attrs_total = both = 0
    not_both = []
    for r in results:
        for v in r["viols"]:
            res.add(v)
        execs += r["execs"]
        states += r["states"]
        transitions += r["transitions"]
        for pn, e in r["table"].items():
            attrs_total += 1
            if e["set"] and (e["unset"] or e["parse_absent"]):
                both += 1
            elif e["set"]:
                pass
            else:
                not_both.append("%s.%s" % (r["root"], pn))
    res.coverage = {
        "states": states, "transitions": transitions, "traces_validated_against_impl": execs, "evaluations": execs,
        "distinct_nontrivial": attrs_total,
        "rule": "every attribute of every structure and envelope class x {unset, set} x surrounding value in {cost<=1 neighbourhood of the "
                "minimal value, maximal value%s}; serialisation through public constructors, parse with the property absent; "
                "distinct_nontrivial = attributes toggled; plus collision histories: ordered pairs of classes that share attribute names but differ "
                "in which of them are always written, each pair in a freshly forked process (first class used first)" % (" and its cost-1 neighbours" if ctx.thorough else ""),
        "collision_histories": len(pairs), "collision_history_samples": [list(p) for p in pairs[:4]],
        "classes": len(roots), "attributes": attrs_total, "attributes_toggled_both_ways": both,
        "attributes_never_set": not_both[:20],
        "exhaustive": True,
        "samples": [r["sample"] for r in results if r["sample"]][:3],
    }
    res.assumptions = ["expectation derives from MM (syntactic T|null, string literals, envelope rule), never from _SPECIAL_PROPERTIES",
                       "required non-null-admitting attributes have no 'unset' state and are only observed set"]
    return res


def replay(ctx, doc):
    r = _task((doc["root"], True))
    for v in r["viols"]:
        if v.site == "%s.%s" % (doc["root"], doc["attribute"]):
            return v.what
    return None
