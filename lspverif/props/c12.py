"""C12 - LSP integer ranges are enforced exactly at construction and parse time."""
from __future__ import annotations

import decimal
import fractions
import math

import attrs

from .. import impl
from ..explore import get_mm, root_class
from ..mm import ref, snake, INT_MIN, INT_MAX, UINT_MIN, UINT_MAX
from ..vse import VSE
from ..runner import Result, Violation
from .c02 import build, Picker

PROP = "C12"


def grid(thorough):
    g = set()
    for b in (INT_MIN, INT_MAX, 0):
        g |= {b - 1, b, b + 1}
    for b in (2**32, -(2**32), 2**63, -(2**63)):
        g |= {b - 1, b, b + 1}
    g |= {2**31, -(2**31) - 1, 2**64, -(2**64), 10**30, -(10**30)}
    # interior landmarks (a bound narrower than the LSP range shows here): powers of two and of ten, both signs
    for k in (7, 8, 15, 16, 24, 30):
        g |= {s * (2**k + d) for s in (1, -1) for d in (-1, 0, 1)}
    for k in range(1, 10):
        g |= {s * (10**k + d) for s in (1, -1) for d in (0, 1)}
    if thorough:
        for b in (INT_MIN, INT_MAX, 0, 2**32, -(2**32)):
            g |= set(range(b - 1024, b + 1025))
    return sorted(g)


def int_props(mm):
    out = []
    owners = [(n, mm.flatten(n)) for n in mm.structures]
    owners.append(("ResponseError", mm.envelopes()["ResponseError"]["properties"]))
    for n, props in owners:
        for p in props:
            t = p["type"]
            if t["kind"] == "base" and t["name"] in ("integer", "uinteger"):
                out.append((n, p["name"], t["name"]))
    return out


def run(ctx):
    mm = get_mm()
    res = Result()
    lsp = impl.lsp()
    conv = impl.converter()
    vse = VSE(mm)
    g = grid(ctx.thorough)
    pairs = int_props(mm)
    execs = 0
    verdict_classes = {}
    samples = []
    for cname, pname, base in pairs:
        cls = root_class(cname)
        if cls is None:
            continue
        lo, hi = (INT_MIN, INT_MAX) if base == "integer" else (UINT_MIN, UINT_MAX)
        jmin = vse.minimal(ref(cname))
        jbase = dict(jmin)
        jbase[pname] = 0
        obj0, _ = build(mm, jbase, ref(cname), Picker([]))
        attr = snake(pname)
        for x in g:
            want = lo <= x <= hi
            # entry point 1: constructor
            try:
                attrs.evolve(obj0, **{attr: x})
                got_c = True
            except Exception as e:  # noqa: BLE001
                got_c = False
                exc_c = e
            # entry point 2: converter
            j = dict(jbase)
            j[pname] = x
            try:
                o = conv.structure(j, cls)
                got_s = getattr(o, attr) == x
                if not got_s:
                    res.add(Violation(PROP, "changed", "%s.%s" % (cname, pname), "structure accepted %d for %s.%s but stored %r" % (x, cname, pname, getattr(o, attr)),
                                      {"engine": "GRID", "root": cname, "attribute": pname, "value": str(x), "input": None}, extra="structure"))
                    got_s = True
            except Exception:  # noqa: BLE001
                got_s = False
            execs += 2
            key = (base, "in" if want else "out", got_c, got_s)
            verdict_classes[str(key)] = verdict_classes.get(str(key), 0) + 1
            for ep, got in (("constructor", got_c), ("structure", got_s)):
                if got != want:
                    res.add(Violation(PROP, "accepts-out-of-range" if got else "rejects-in-range", "%s.%s" % (cname, pname),
                                      "%s of %s.%s (%s) %s %d" % (ep, cname, pname, base, "accepts" if got else "rejects", x),
                                      {"engine": "GRID", "root": cname, "attribute": pname, "value": str(x), "entry": ep, "input": None},
                                      extra=ep))
            if got_c != got_s:
                res.add(Violation(PROP, "entry-points-disagree", "%s.%s" % (cname, pname),
                                  "constructor %s but structure %s the value %d" % ("accepts" if got_c else "rejects", "accepts" if got_s else "rejects", x),
                                  {"engine": "GRID", "root": cname, "attribute": pname, "value": str(x), "input": None}))
        if len(samples) < 2:
            samples.append({"class": cname, "attribute": pname, "base": base, "grid_size": len(g), "first": g[0], "last": g[-1]})

    # ---- validator functions over arbitrary Python values
    setup = impl.setup_paths()
    from lsprotocol import validators
    pos = lsp.Position(line=0, character=0)
    instances = [pos, object(), None]
    attributes = [attrs.fields(lsp.Position).line, "some_attr", None]
    odd = [True, False, 1.0, float("nan"), float("inf"), "1", None, [], 1 + 0j, decimal.Decimal(1), fractions.Fraction(1), b"1"]
    vcalls = 0
    for vname, lo, hi in (("integer_validator", INT_MIN, INT_MAX), ("uinteger_validator", UINT_MIN, UINT_MAX)):
        fn = getattr(validators, vname)
        for inst in instances:
            for at in attributes:
                aname = at.name if hasattr(at, "name") else str(at)
                cname = type(inst).__qualname__
                for x in list(g) + odd:
                    vcalls += 1
                    label = "%s(%s, %s, %r)" % (vname, cname, aname, x)
                    try:
                        r = fn(inst, at, x)
                    except ValueError as e:
                        msg = str(e)
                        if cname not in msg or aname not in msg:
                            res.add(Violation(PROP, "validator-message", vname, "%s raises ValueError that does not name class and attribute: %s" % (label, msg[:100]),
                                              {"engine": "GRID", "call": label, "input": None}, extra=cname))
                        if isinstance(x, int) and not isinstance(x, bool) and lo <= x <= hi:
                            res.add(Violation(PROP, "validator-rejects-in-range", vname, "%s raised for an in-range int" % label,
                                              {"engine": "GRID", "call": label, "input": None}))
                        continue
                    except Exception as e:  # noqa: BLE001
                        res.add(Violation(PROP, "validator-raises-other", vname, "%s raises %s instead of ValueError" % (label, type(e).__name__),
                                          {"engine": "GRID", "call": label, "input": None}, extra=type(e).__name__))
                        continue
                    if r is not True:
                        res.add(Violation(PROP, "validator-returns", vname, "%s returns %r instead of True" % (label, r),
                                          {"engine": "GRID", "call": label, "input": None}))
                    elif isinstance(x, int) and not isinstance(x, bool) and not (lo <= x <= hi):
                        res.add(Violation(PROP, "validator-accepts-out-of-range", vname, "%s returned True for an out-of-range int" % label,
                                          {"engine": "GRID", "call": label, "input": None}))
    # ---- histories: the verdict for an int must not depend on what was validated before (values that compare
    # equal to it but are no ints: 7.0, Fraction(7), Decimal(7), 7+0j), at the validators and at both entry points
    hist_calls = 0
    poisons = [("float", float), ("Fraction", fractions.Fraction), ("Decimal", decimal.Decimal), ("complex", complex)]
    fresh = iter(range(100003, 200000, 7))
    for vname, lo, hi in (("integer_validator", INT_MIN, INT_MAX), ("uinteger_validator", UINT_MIN, UINT_MAX)):
        fn = getattr(validators, vname)
        at = attrs.fields(lsp.Position).line
        for pname, pf in poisons:
            for in_range in (True, False):
                n = next(fresh) if in_range else hi + next(fresh)
                for order in ("poison-first", "int-first"):
                    n2 = n + (0 if order == "poison-first" else 1)
                    seq = [pf(n2), n2] if order == "poison-first" else [n2, pf(n2), n2]
                    verdicts = []
                    for x in seq:
                        hist_calls += 1
                        try:
                            verdicts.append(fn(pos, at, x) is True)
                        except ValueError:
                            verdicts.append(False)
                        except Exception as e:  # noqa: BLE001
                            verdicts.append(type(e).__name__)
                    want = lo <= n2 <= hi
                    int_verdicts = [v for x, v in zip(seq, verdicts) if isinstance(x, int)]
                    if any(v is not want for v in int_verdicts):
                        res.add(Violation(PROP, "validator-history", vname, "%s: verdicts for the int %d are %s after the call sequence %r (expected %s every time)" % (
                            vname, n2, int_verdicts, [repr(x) for x in seq], want), {"engine": "GRID", "call": vname, "history": [repr(x) for x in seq], "input": None}, extra=pname))
    # the same through the entry points: Position(line=n.0) / structure with n.0 first, then the int
    for pname, pf in poisons[:1]:
        for ep in ("constructor", "structure"):
            n = next(fresh)
            for x in (pf(n), n):
                hist_calls += 1
                try:
                    if ep == "constructor":
                        lsp.Position(line=x, character=0)
                    else:
                        conv.structure({"line": x, "character": 0}, lsp.Position)
                    ok = True
                except Exception:  # noqa: BLE001
                    ok = False
                if isinstance(x, int) and not ok:
                    res.add(Violation(PROP, "entry-point-history", "Position.line", "%s rejects the in-range int %d after having seen %r" % (ep, n, pf(n)),
                                      {"engine": "GRID", "entry": ep, "history": [repr(pf(n)), n], "input": None}, extra=ep))
    vcalls += hist_calls
    res.coverage = {
        "states": len(pairs) * len(g), "transitions": execs + vcalls,
        "traces_validated_against_impl": execs + vcalls, "evaluations": execs + vcalls,
        "distinct_nontrivial": len(pairs) * len(g),
        "rule": "every directly integer/uinteger-typed property of every flattened structure (and ResponseError.code) x boundary grid "
                "(%d ints) x {constructor, converter.structure}; validator functions x 3 instances x 3 attribute arguments x (grid + 12 non-int values)" % len(g),
        "integer_properties": len(pairs), "grid_size": len(g), "verdict_classes": verdict_classes, "validator_calls": vcalls,
        "exhaustive": True, "samples": samples,
    }
    res.assumptions = ["decided on the boundary grid, not on all of Z (DESIGN 4)", "JSON booleans are outside the statement (ints only)"]
    return res


def replay(ctx, doc):
    r = run(ctx)
    for v in r.violations.values():
        if v.site == "%s.%s" % (doc.get("root"), doc.get("attribute")) or v.site == doc.get("call", "").split("(")[0]:
            return v.what
    return None
