"""C13 - enums carry exactly the metamodel's values; open ones accept custom values."""
from __future__ import annotations

import collections
import enum
import multiprocessing as mp

from .. import impl
from ..explore import get_mm, root_class, leaf_exc, jround
from ..mm import ref, json_eq, canon
from ..vse import VSE
from ..runner import Result, Violation
from .c14 import embed, roots_for_site
from .c11 import outside_enum

PROP = "C13"
CUSTOM = {"string": ["verif/custom", "", "UPPER.Case", "with space", "\u00fcn\u00ef\u2713", "x" * 300],
          "integer": [12345, 0, -7, -(2**31), 2**31 - 1], "uinteger": [12345, 0, 7, 2**31 - 1]}


def enum_sites(mm):
    out = []
    for ok, on, path, t in mm.walk_types():
        if t["kind"] == "reference" and t["name"] in mm.enums:
            out.append((ok, on, path, t["name"]))
    return out


def _site_task(idx):
    mm = get_mm()
    vse = VSE(mm)
    conv = impl.converter()
    ok, on, path, ename = enum_sites(mm)[idx]
    label = "%s%s%s" % (on, ":" if ok == "method" else "", "".join(path))
    e = mm.enums[ename]
    is_open = mm.is_open_enum(ename)
    declared = [v["value"] for v in e["values"]]
    res = {"site": label, "enum": ename, "execs": 0, "accept": 0, "reject": 0, "viols": [], "unreachable": False, "sample": None,
           "not_invalid": 0}
    roots = [r for r in roots_for_site(mm, ok, on, path) if root_class(r[0]) is not None]
    if not roots:
        res["unreachable"] = True
        return res
    custom = [c for c in CUSTOM[e["type"]["name"]] if not any(json_eq(c, d) for d in declared)]
    if e["type"]["name"] == "string":
        # custom values that are the *names* of declared values (member names of the generated Enum), and declared values
        # in another case: a look-up by name instead of by value would silently rewrite them
        extra = []
        for v in e["values"][:12]:
            for c in (v["name"], v["name"].upper(), str(v["value"]).upper(), str(v["value"]).capitalize()):
                if c not in extra and not any(json_eq(c, d) for d in declared):
                    extra.append(c)
        custom += [c for c in extra if c not in custom][:16]
    accept_vals = [("declared", v) for v in declared] + ([("custom", v) for v in custom] if is_open else [])
    reject_vals = [] if is_open else [("outside", v) for v in outside_enum(mm, ename)]
    for rname, rt, rpath in roots:
        cls = root_class(rname)
        for kind, v in accept_vals:
            j = embed(mm, vse, rt, rpath, v)
            if j is None or not mm.valid(j, rt, True):
                continue
            res["execs"] += 1
            res["accept"] += 1
            try:
                o = conv.structure(j, cls)
                u = jround(conv.unstructure(o, cls))
            except Exception as ex:  # noqa: BLE001
                en, em = leaf_exc(ex)
                res["viols"].append(Violation(PROP, "rejects-" + kind, label, "%s value %r of %s at %s (in %s) raises %s: %s" % (kind, v, ename, label, rname, en, em),
                                              {"engine": "VSE", "root": rname, "input": j, "enum": ename, "value": v, "observed": [en, em]}, node=v, extra=ename))
                continue
            if not mm.nf_match(u, j, rt):
                res["viols"].append(Violation(PROP, "alters-" + kind, label, "%s value %r of %s at %s (in %s) does not round-trip" % (kind, v, ename, label, rname),
                                              {"engine": "VSE", "root": rname, "input": j, "enum": ename, "value": v, "observed": u}, node=v, extra=ename))
            if res["sample"] is None:
                res["sample"] = {"site": label, "enum": ename, "kind": kind, "root": rname, "input": j}
        for kind, v in reject_vals:
            j = embed(mm, vse, rt, rpath, v)
            if j is None:
                continue
            if mm.valid(j, rt, False):
                res["not_invalid"] += 1       # another alternative at the site accepts the value
                continue
            res["execs"] += 1
            res["reject"] += 1
            try:
                o = conv.structure(j, cls)
            except Exception:  # noqa: BLE001
                continue
            res["viols"].append(Violation(PROP, "accepts-outside", label, "value %r outside closed enumeration %s at %s (in %s) is structured instead of rejected" % (v, ename, label, rname),
                                          {"engine": "VSE", "root": rname, "input": j, "enum": ename, "value": v, "observed": repr(o)[:300]}, node=v, extra=ename))
    return res


def run(ctx):
    mm = get_mm()
    res = Result()
    lsp = impl.lsp()
    impl.converter()
    # ---- static half: members as a multiset
    static = 0
    for name, e in mm.enums.items():
        cls = getattr(lsp, name, None)
        static += 1
        if cls is None or not (isinstance(cls, type) and issubclass(cls, enum.Enum)):
            res.add(Violation(PROP, "missing-enum", name, "enumeration %s is not an Enum class of lsprotocol.types" % name,
                              {"engine": "BISIM", "enum": name, "input": None}))
            continue
        want = collections.Counter(canon(v["value"]) + ":" + type(v["value"]).__name__ for v in e["values"])
        got = collections.Counter(canon(m.value) + ":" + type(m.value).__name__ for m in cls.__members__.values())
        if want != got:
            missing = list((want - got).elements())
            extra = list((got - want).elements())
            res.add(Violation(PROP, "members-differ", name, "enumeration %s: missing %s, extra/altered %s" % (name, missing[:5], extra[:5]),
                              {"engine": "BISIM", "enum": name, "missing": missing, "extra": extra, "input": None}))
        base = e["type"]["name"]
        pybase = str if base == "string" else int
        if not issubclass(cls, pybase):
            res.add(Violation(PROP, "enum-base", name, "enumeration %s is not a %s enum" % (name, pybase.__name__),
                              {"engine": "BISIM", "enum": name, "input": None}))
    extra_enums = [n for n, c in vars(lsp).items() if isinstance(c, type) and issubclass(c, enum.Enum) and c.__module__ == lsp.__name__
                   and n not in mm.enums and n != "MessageDirection"]
    # helper enums the package may add are not the statement's subject (C04 compares the module in both directions)
    # ---- dynamic half: every use site
    sites = enum_sites(mm)
    with mp.get_context("fork").Pool(ctx.workers) as pool:
        results = pool.map(_site_task, range(len(sites)), chunksize=4)
    execs = acc = rej = 0
    unreachable = []
    used = set()
    table = {}
    for r in results:
        for v in r["viols"]:
            res.add(v)
        execs += r["execs"]
        acc += r["accept"]
        rej += r["reject"]
        if r["unreachable"]:
            unreachable.append(r["site"])
        else:
            used.add(r["enum"])
            table[r["site"]] = [r["enum"], r["accept"], r["reject"], r["not_invalid"]]
    unused = sorted(set(mm.enums) - used)
    res.coverage = {
        "states": len(sites) + static, "transitions": execs + static,
        "traces_validated_against_impl": execs, "evaluations": execs + static,
        "distinct_nontrivial": len(table),
        "rule": "static: 40 enumerations compared as multisets of (value, type) in both directions; dynamic: every reference to an enumeration "
                "in the metamodel (property, array element, map key/value, union alternative, params, result) embedded in its minimal owner root x "
                "every declared value (+ custom values for open enums: %s) must structure and round-trip; closed enums x outside values of the right "
                "base type must be rejected when MM finds the edited message invalid" % CUSTOM,
        "enumerations": static, "enum_classes_without_metamodel_enumeration": extra_enums, "use_sites": len(sites), "sites_executed": len(table), "sites_without_parse_position": unreachable,
        "accept_executions": acc, "reject_executions": rej, "enums_without_reachable_use_site": unused,
        "site_table": table, "exhaustive": True,
        "samples": [r["sample"] for r in results if r["sample"]][:3],
    }
    res.assumptions = ["open = supportsCustomValues in the metamodel or the documented CompletionItemKind customisation"]
    return res


def replay(ctx, doc):
    if not doc.get("root"):
        r = run(ctx)
        return "; ".join(v.what for v in r.violations.values() if v.site == doc.get("enum")) or None
    mm = get_mm()
    conv = impl.converter()
    cls = root_class(doc["root"])
    rt = ref(doc["root"])
    try:
        o = conv.structure(doc["input"], cls)
        u = jround(conv.unstructure(o, cls))
    except Exception as e:  # noqa: BLE001
        return ("raises %s" % (leaf_exc(e),)) if mm.valid(doc["input"], rt, True) else None
    if not mm.valid(doc["input"], rt, False):
        return "accepted spec-invalid value: %r" % (o,)
    return None if mm.nf_match(u, doc["input"], rt) else "does not round-trip: %s" % (u,)
