"""C03 - structured results are well-typed instances of the declared classes."""
from __future__ import annotations

import collections.abc
import enum
import typing

import attrs

from .. import impl
from ..explore import explore_roots, get_mm, root_class
from ..mm import ref, json_eq, snake, ANY_ALIASES, is_num, canon, is_null_type
from ..runner import Result, Violation

PROP = "C03"


def _any_types():
    lsp = impl.lsp()
    return (lsp.LSPAny, typing.Any, lsp.LSPObject, object)


def conf_ann(v, t, path, out, depth=0):
    """Annotation-driven: does the object graph conform to the resolved attrs annotations?"""
    lsp = impl.lsp()
    if t is typing.Any or t is object or t is lsp.LSPObject or t == lsp.LSPAny:
        return
    if t is None or t is type(None):
        if v is not None:
            out.append((path, "not-none", type(v).__name__))
        return
    if isinstance(t, (str, typing.ForwardRef)):
        out.append((path, "unresolved-annotation", str(t)))
        return
    o = typing.get_origin(t)
    if o is typing.Union:
        args = typing.get_args(t)
        if v is None and type(None) in args:
            return
        if any(a is typing.Any or a is object for a in args):
            return
        for a in args:
            if a is type(None):
                continue
            e = []
            conf_ann(v, a, path, e, depth + 1)
            if not e:
                return
        out.append((path, "no-union-alternative", type(v).__name__))
        return
    if o in (collections.abc.Sequence, list):
        if not isinstance(v, (list, tuple)) or isinstance(v, str):
            out.append((path, "not-sequence", type(v).__name__))
            return
        for x in v:
            conf_ann(x, typing.get_args(t)[0], path + "[]", out, depth + 1)
        return
    if o is tuple:
        if not isinstance(v, tuple):
            out.append((path, "not-tuple", type(v).__name__))
            return
        args = typing.get_args(t)
        if len(args) != len(v):
            out.append((path, "tuple-length", len(v)))
            return
        for x, a in zip(v, args):
            conf_ann(x, a, path + "()", out, depth + 1)
        return
    if o is dict:
        if not isinstance(v, dict):
            out.append((path, "not-dict", type(v).__name__))
            return
        for x in v.values():
            conf_ann(x, typing.get_args(t)[1], path + "{}", out, depth + 1)
        return
    if o is typing.Literal:
        if v not in typing.get_args(t):
            out.append((path, "bad-literal", repr(v)[:40]))
        return
    if isinstance(t, type):
        if attrs.has(t):
            if not isinstance(v, t):
                out.append((path, "not-instance-of-" + t.__name__, type(v).__name__))
                return
            for a in attrs.fields(t):
                conf_ann(getattr(v, a.name), a.type, t.__name__ + "." + a.name, out, depth + 1)
            return
        if issubclass(t, enum.Enum):
            if isinstance(v, t):
                return
            try:
                t(v)
            except Exception:  # noqa: BLE001
                out.append((path, "not-a-member-of-" + t.__name__, repr(v)[:40]))
            return
        if t is float:
            if not is_num(v):
                out.append((path, "not-float", type(v).__name__))
            return
        if t is int:
            if isinstance(v, bool) or not isinstance(v, int):
                out.append((path, "not-int", type(v).__name__))
            return
        if not isinstance(v, t):
            out.append((path, "not-" + t.__name__, type(v).__name__))
        return
    out.append((path, "unknown-annotation", str(t)[:60]))


def conf_mm(mm, v, j, t, path, out):
    """Metamodel-driven, in lock-step with the input: at a union the value must be an instance of
    an alternative for which the input was valid (protocol reading)."""
    lsp = impl.lsp()
    k = t["kind"]
    if k == "base":
        n = t["name"]
        if n == "null":
            ok = v is None
        elif n == "boolean":
            ok = isinstance(v, bool) and v is j
        elif n in ("integer", "uinteger"):
            ok = isinstance(v, int) and not isinstance(v, bool) and v == j
        elif n == "decimal":
            ok = is_num(v) and v == j
        else:
            ok = isinstance(v, str) and v == j
        if not ok:
            out.append((path, "base-" + n, type(v).__name__))
        return
    if k in ("stringLiteral", "integerLiteral", "booleanLiteral"):
        if not json_eq(v, t["value"]):
            out.append((path, "literal", repr(v)[:40]))
        return
    if k == "reference":
        n = t["name"]
        if n in mm.enums:
            cls = getattr(lsp, n, None)
            if isinstance(v, enum.Enum):
                if cls is None or not isinstance(v, cls) or not json_eq(v.value, j):
                    out.append((path, "enum-member-of-wrong-enum", repr(v)[:40]))
                return
            if isinstance(v, (dict, list)) or not json_eq(v, j):
                out.append((path, "enum-value-changed", repr(v)[:40]))
            return
        if n in mm.aliases:
            if n in ANY_ALIASES:
                if not json_eq(_plain(v), j):
                    out.append((path, "any-payload-changed", type(v).__name__))
                return
            return conf_mm(mm, v, j, mm.aliases[n]["type"], path, out)
        props = mm.props_of(t)
        cls = getattr(lsp, n, None)
        if cls is None or not isinstance(v, cls):
            out.append((path, "not-instance-of-" + n, type(v).__name__))
            return
        return _conf_obj(mm, v, j, props, n, out)
    if k == "array":
        if not isinstance(v, (list, tuple)) or isinstance(j, list) and len(v) != len(j):
            out.append((path, "not-sequence", type(v).__name__))
            return
        for x, y in zip(v, j):
            conf_mm(mm, x, y, t["element"], path + "[]", out)
        return
    if k == "tuple":
        if not isinstance(v, tuple) or len(v) != len(j):
            out.append((path, "not-tuple", type(v).__name__))
            return
        for x, y, it in zip(v, j, t["items"]):
            conf_mm(mm, x, y, it, path + "()", out)
        return
    if k == "map":
        if not isinstance(v, dict) or set(map(str, v.keys())) != set(j.keys()):
            out.append((path, "not-dict", type(v).__name__))
            return
        for kk, x in v.items():
            conf_mm(mm, x, j[str(kk)], t["value"], path + "{}", out)
        return
    if k == "or":
        errs = []
        for it in t["items"]:
            if mm.valid(j, it, False):
                e = []
                conf_mm(mm, v, j, it, path, e)
                if not e:
                    return
                errs.append(e)
        out.append((path, "no-valid-alternative", type(v).__name__))
        return
    if k == "and":
        if not attrs.has(type(v)):
            out.append((path, "not-an-object", type(v).__name__))
            return
        return _conf_obj(mm, v, j, mm.and_props(t), type(v).__name__, out)
    if k == "literal":
        props = t["value"].get("properties", [])
        if not props:
            if not json_eq(_plain(v), j):
                out.append((path, "any-payload-changed", type(v).__name__))
            return
        if not attrs.has(type(v)):
            out.append((path, "raw-" + type(v).__name__ + "-for-literal", ""))
            return
        return _conf_obj(mm, v, j, props, type(v).__name__, out)
    out.append((path, "unknown-kind-" + k, ""))


def _plain(v):
    return v


def _conf_obj(mm, v, j, props, cname, out):
    for p in props:
        a = snake(p["name"])
        if not hasattr(v, a):
            out.append((cname + "." + p["name"], "no-attribute", a))
            continue
        val = getattr(v, a)
        if p["name"] in j and j[p["name"]] is not None:
            conf_mm(mm, val, j[p["name"]], p["type"], cname + "." + p["name"], out)
        elif p["name"] in j:
            if val is not None:
                out.append((cname + "." + p["name"], "null-became", type(val).__name__))
        else:
            if p["type"]["kind"] == "stringLiteral":
                if val != p["type"]["value"]:
                    out.append((cname + "." + p["name"], "literal-default", repr(val)[:40]))
            elif val is not None:
                out.append((cname + "." + p["name"], "absent-became", type(val).__name__))


def check(mm, name, j):
    conv = impl.converter()
    cls = root_class(name)
    try:
        o = conv.structure(j, cls)
    except Exception:  # noqa: BLE001 - failures to structure are C01's subject
        return "raise", []
    out = []
    if name in mm.aliases:
        pass            # an alias is not an attribute; its value is judged in lock-step with the input below
    else:
        if not isinstance(o, cls):
            out.append((name, "not-instance-of-" + name, type(o).__name__))
        else:
            conf_ann(o, cls, name, out)
    conf_mm(mm, o, j, ref(name), name, out)
    return "ok", out


def invalid_but_accepted(mm, name, j):
    """'Whenever structuring succeeds': single closed-enum edits that make the value spec-invalid; if the
    converter nevertheless returns an object, that object must still be well-typed (annotation walk)."""
    from . import c11
    if name not in mm.structures:
        return 0, []
    conv = impl.converter()
    cls = root_class(name)
    n = 0
    out = []
    for kind, path, new in c11.edits_at(mm, j, ref(name), (), 0, 1):
        if kind != "closed-enum-outside":
            continue
        j2 = c11.apply(j, path, new)
        if mm.valid(j2, ref(name), False):
            continue
        n += 1
        try:
            o = conv.structure(j2, cls)
        except Exception:  # noqa: BLE001
            continue
        errs = []
        conf_ann(o, cls, name, errs)
        for p, k, got in errs:
            out.append((p, k + "-after-accepting-invalid-input", got, j2))
    return n, out


def judge(mm, name, j, opts):
    st, out = check(mm, name, j)
    if st == "raise":
        return 1, "raise(C01)", []
    vs = []
    seen = set()
    n_inv, inv = invalid_but_accepted(mm, name, j)
    for path, kind, got, j2 in inv:
        if (path, kind) in seen:
            continue
        seen.add((path, kind))
        vs.append(Violation(PROP, "mistyped", path, "%s: %s (got %s)" % (path, kind, got),
                            {"engine": "VSE", "root": name, "input": j2, "observed": [path, kind, str(got)],
                             "expected": "a successfully structured value conforms to its annotations"}, node=j2, extra=kind))
    for path, kind, got in out:
        key = (path, kind)
        if key in seen:
            continue
        seen.add(key)
        vs.append(Violation(PROP, "mistyped", path, "%s: %s (got %s)" % (path, kind, got),
                            {"engine": "VSE", "root": name, "input": j, "observed": [path, kind, str(got)],
                             "expected": "value conforms to the annotation and to an alternative valid for the input"},
                            node=j, extra=kind))
    return 1, "well-typed" if not vs else "mistyped", vs


def _site_task(args):
    """Union-site shapes (the heterogeneous arrays and maximal alternatives of C14) judged by both walkers."""
    idx, k = args
    from . import c14
    from ..vse import VSE
    from ..mm import is_null_type
    mm = get_mm()
    vse = VSE(mm)
    ok, on, path, ort, via = c14.union_sites(mm)[idx]
    n = 0
    vs = []
    roots = [r for r in c14.roots_for_site(mm, ok, on, path) if root_class(r[0]) is not None and r[0] not in mm.aliases]
    for alt in ort["items"]:
        for slabel, v in ([("null", None)] if is_null_type(alt) else c14.shapes(mm, vse, alt, k, site_or=ort)):
            for rname, rt, rpath in roots:
                j = c14.embed(mm, vse, rt, rpath, v)
                if j is None or not mm.valid(j, rt, True):
                    continue
                ne, oc, out = judge(mm, rname, j, {})
                n += ne
                vs += out
    return n, vs, vse.states, vse.transitions


def shape_collisions(mm):
    """Values that are valid for two different structures reachable at union positions (e.g. {"pattern": "s"}
    is a TextDocumentFilterPattern in a document selector and a NotebookDocumentFilterPattern in a notebook
    selector).  -> [[(site index, alternative index, value), ...]] one list per colliding value."""
    from . import c14
    from ..vse import VSE
    from ..mm import ANY_ALIASES as _ANY
    vse = VSE(mm)
    by_val = {}
    for idx, (ok, on, path, ort, via) in enumerate(c14.union_sites(mm)):
        if not [r for r in c14.roots_for_site(mm, ok, on, path) if root_class(r[0]) is not None and r[0] not in mm.aliases]:
            continue
        for ai, alt in enumerate(ort["items"]):
            t = alt
            hops = 0
            while t["kind"] == "reference" and t["name"] in mm.aliases and t["name"] not in _ANY and hops < 8:
                t = mm.aliases[t["name"]]["type"]
                hops += 1
            if t["kind"] != "reference" or t["name"] not in mm.structures:
                continue
            for c, v in vse.enum(t, 1):
                by_val.setdefault(canon(v), {}).setdefault(t["name"], (idx, ai, v))
    out = []
    for cv, d in sorted(by_val.items()):
        if len(d) >= 2:
            out.append([d[k] for k in sorted(d)][:3])
    return out


def _collision_task(args):
    """Freshly forked process, fresh converter: the same value is structured at two different union positions,
    one after the other (all orders); each result must be well-typed for *its* position."""
    from . import c14
    from ..vse import VSE
    import itertools
    group = args
    mm = get_mm()
    vse = VSE(mm)
    sites = c14.union_sites(mm)
    n = 0
    vs = []
    for order in itertools.permutations(range(len(group)), 2):
        for gi in order:
            idx, ai, v = group[gi]
            ok, on, path, ort, via = sites[idx]
            for rname, rt, rpath in [r for r in c14.roots_for_site(mm, ok, on, path) if root_class(r[0]) is not None and r[0] not in mm.aliases][:1]:
                j = c14.embed(mm, vse, rt, rpath, v)
                if j is None or not mm.valid(j, rt, True):
                    continue
                st, out = check(mm, rname, j)
                n += 1
                for p, k, got in out:
                    vs.append(Violation(PROP, "mistyped", p, "%s: %s (got %s) when the same value had been structured at another union position before" % (p, k, got),
                                        {"engine": "VSE", "root": rname, "input": j, "history": [str(group[g][2])[:80] for g in order], "observed": [p, k, str(got)]},
                                        node=j, extra=k + "-after-same-shape-elsewhere"))
    return n, vs


class _Poison:
    def __repr__(self):
        return "<verif poison>"


def _aliasing_task(_):
    """Freshly forked process.  History: structure every pool value; the application then *edits the results it
    received* (appends to every list, adds a key to every dict of the object graphs); every pool value is structured
    again.  No later result may contain what was put into an earlier one - a result is converted from its input."""
    import copy as _copy
    from . import c14
    from ..vse import VSE
    mm = get_mm()
    vse = VSE(mm)
    conv = impl.converter()
    pool = []
    seen = set()
    for ok, on, path, ort, via in c14.union_sites(mm):
        roots = [r for r in c14.roots_for_site(mm, ok, on, path) if root_class(r[0]) is not None and r[0] not in mm.aliases][:1]
        for alt in ort["items"]:
            if is_null_type(alt):
                continue
            vals = [v for c, v in vse.enum(alt, 0)]
            t = alt
            hops = 0
            while t["kind"] == "reference" and t["name"] in mm.aliases and hops < 8:
                t = mm.aliases[t["name"]]["type"]
                hops += 1
            if t["kind"] == "array":
                vals.append([])
            if t["kind"] == "map":
                vals.append({})
            for v in vals:
                for rname, rt, rpath in roots:
                    j = c14.embed(mm, vse, rt, rpath, v)
                    if j is None or not mm.valid(j, rt, True):
                        continue
                    k = rname + canon(j)
                    if k not in seen:
                        seen.add(k)
                        pool.append((rname, j))
    poison = _Poison()

    def walk(o, fn, depth=0, visited=None):
        visited = visited if visited is not None else set()
        if id(o) in visited or depth > 40:
            return
        visited.add(id(o))
        if isinstance(o, list):
            for x in list(o):
                walk(x, fn, depth + 1, visited)
            fn(o)
        elif isinstance(o, tuple):
            for x in o:
                walk(x, fn, depth + 1, visited)
        elif isinstance(o, dict):
            for x in list(o.values()):
                walk(x, fn, depth + 1, visited)
            fn(o)
        elif attrs.has(type(o)):
            for a in attrs.fields(type(o)):
                walk(getattr(o, a.name, None), fn, depth + 1, visited)

    def taint(c):
        try:
            if isinstance(c, list):
                c.append(poison)
            else:
                c["__verif_poison__"] = poison
        except Exception:  # noqa: BLE001 - immutable container types
            pass

    first = []
    for rname, j in pool:
        try:
            first.append(conv.structure(_copy.deepcopy(j), root_class(rname)))     # LSPAny payloads are passed through: never share the pool value
        except Exception:  # noqa: BLE001 - C01's subject
            first.append(None)
    for o in first:
        if o is not None:
            walk(o, taint)
    vs = []
    n = len(pool)
    for rname, j in pool:
        n += 1
        try:
            o2 = conv.structure(_copy.deepcopy(j), root_class(rname))
        except Exception:  # noqa: BLE001
            continue
        found = []

        def look(c):
            if isinstance(c, list) and any(x is poison for x in c) or isinstance(c, dict) and "__verif_poison__" in c:
                found.append(type(c).__name__)
        walk(o2, look)
        if found:
            vs.append(Violation(PROP, "foreign-value", rname, "%s structured from %s contains an object that the application had put into an EARLIER result "
                                "(a mutable container is shared between results)" % (rname, canon(j)[:120]),
                                {"engine": "HIST", "root": rname, "input": j, "history": ["structure all pool values", "edit the results", "structure again"],
                                 "observed": found[:3]}, node=j, extra="shared-container"))
    return n, vs


def user_subclasses(mm):
    """'An instance of the requested class' also when the requested class is an application-defined subclass of a
    package class: every structure class gets a subclass with one extra optional field; the minimal value plus that
    field must come back as an instance of the subclass with the field set."""
    from ..vse import VSE
    lsp = impl.lsp()
    conv = impl.converter()
    vse = VSE(mm)
    n = 0
    vs = []
    skipped = 0
    for name in mm.structures:
        cls = root_class(name)
        if cls is None or not attrs.has(cls):
            continue
        try:
            sub = attrs.make_class("Verif" + name.lstrip("_") + "Ext", {"verif_extra": attrs.field(default=None, kw_only=True)}, bases=(cls,))
        except Exception:  # noqa: BLE001 - the class cannot be subclassed that way
            skipped += 1
            continue
        j = vse.minimal(ref(name))
        if not isinstance(j, dict):
            continue
        j = dict(j)
        j["verifExtra"] = "x"
        n += 1
        try:
            o = conv.structure(j, sub)
        except Exception as e:  # noqa: BLE001
            vs.append(Violation(PROP, "subclass-raise", name, "structuring into an application-defined subclass of %s raises %s" % (name, type(e).__name__),
                                {"engine": "VSE", "root": name, "input": j, "subclass_of": name}, node=j, extra=type(e).__name__))
            continue
        if type(o) is not sub or getattr(o, "verif_extra", None) != "x":
            vs.append(Violation(PROP, "subclass-not-requested-class", name, "structuring into an application-defined subclass of %s returns %s (extra field %r)" % (
                name, type(o).__name__, getattr(o, "verif_extra", "<absent>")), {"engine": "VSE", "root": name, "input": j, "subclass_of": name}, node=j))
    return n, vs, skipped


def run(ctx):
    mm = get_mm()
    res = Result()
    lsp = impl.lsp()
    roots = [n for k, n in mm.roots() if hasattr(lsp, n)]
    kmin, kmax = (3, 1) if ctx.thorough else (2, 0)
    # shape-collision histories first (children forked from this pristine process)
    impl.converter()
    import multiprocessing as _mp
    groups = shape_collisions(mm)
    with _mp.get_context("fork").Pool(ctx.workers, maxtasksperchild=1) as pool:
        cparts = pool.map(_collision_task, groups, chunksize=1)
    collision_execs = sum(p[0] for p in cparts)
    for p in cparts:
        res.merge_violations(p[1])
    with _mp.get_context("fork").Pool(1, maxtasksperchild=1) as pool:
        alias_execs, alias_viols = pool.map(_aliasing_task, [0])[0]
    res.merge_violations(alias_viols)
    collision_execs += alias_execs
    sub_execs, sub_viols, sub_skipped = user_subclasses(mm)
    res.merge_violations(sub_viols)
    collision_execs += sub_execs
    opts = {"cap_s": 900 if ctx.thorough else 120}
    a, v = explore_roots(ctx, judge, roots, kmin, kmax, opts)
    res.merge_violations(v)
    import multiprocessing as mp
    from . import c14
    nsites = len(c14.union_sites(mm))
    with mp.get_context("fork").Pool(ctx.workers) as pool:
        parts = pool.map(_site_task, [(i, 2 if ctx.thorough else 1) for i in range(nsites)], chunksize=2)
    site_execs = 0
    for n_, vs_, st_, tr_ in parts:
        site_execs += n_
        res.merge_violations(vs_)
        a["states"] += st_
        a["transitions"] += tr_
    a["evals"] += site_execs + collision_execs
    from .c01 import corpus_pass
    c_evals, c_viols, c_outcomes, c_note = corpus_pass(ctx, judge)
    res.merge_violations(c_viols)
    a["evals"] += c_evals
    # static part: after the first get_converter no field annotation is still a string
    unresolved = 0
    nfields = 0
    for n, cls in lsp.ALL_TYPES_MAP.items():
        if isinstance(cls, type) and attrs.has(cls):
            for a_ in attrs.fields(cls):
                nfields += 1
                if isinstance(a_.type, (str, typing.ForwardRef)):
                    unresolved += 1
                    res.add(Violation(PROP, "unresolved", "%s.%s" % (n, a_.name), "annotation still a forward reference",
                                      {"engine": "BISIM", "root": n, "input": None}))
    res.coverage = {
        "states": a["states"], "transitions": a["transitions"],
        "traces_validated_against_impl": a["evals"], "evaluations": a["evals"],
        "distinct_nontrivial": a["distinct_nt"],
        "rule": "every VSE derivation of every root is structured; the object graph is walked against the resolved attrs "
                "annotations and, in lock-step with the input, against the metamodel (union positions: an alternative valid for the input); plus "
                "every union site x alternative x shape of C14 (heterogeneous arrays, maximal alternatives) embedded in its owner root; "
                "history: all union-site minimal values (and empty arrays / maps) structured, every list / dict of the results edited, all structured again: "
                "nothing put into an earlier result may show up in a later one",
        "union_site_executions": site_execs, "shape_collision_groups": len(groups), "shape_collision_executions": collision_execs, "result_aliasing_history_executions": alias_execs, "user_subclass_executions": sub_execs, "classes_not_subclassable": sub_skipped, "testdata_true_vectors_walked": c_evals,
        "roots": a["roots"], "bounds": {"min_base_k": kmin, "max_base_k": kmax},
        "outcome_classes": a["outcomes"], "attrs_fields_checked_resolved": nfields,
        "capped_roots": a["capped"], "exhaustive": not a["capped"], "samples": a["samples"],
    }
    res.assumptions = ["values that fail to structure are C01's subject and are skipped here",
                       "decimal positions accept int or float (cattrs converts, JSON does not distinguish)"]
    return res


def replay(ctx, doc):
    mm = get_mm()
    if doc.get("engine") == "HIST" and doc.get("history"):
        # result-aliasing history: the whole (short) history is re-run in a fresh process
        import multiprocessing as _mp
        impl.converter()
        with _mp.get_context("fork").Pool(1, maxtasksperchild=1) as pool:
            n, vs = pool.map(_aliasing_task, [0])[0]
        hit = [v.what for v in vs if v.site == doc.get("root")] or [v.what for v in vs]
        return "; ".join(hit[:2]) or None
    st, out = check(mm, doc["root"], doc["input"])
    return str(out[:3]) if out else None
