"""C09 - method catalogue and type registry agree with the metamodel (BISIM on the tables)."""
from __future__ import annotations

import enum
import typing

import attrs

from .. import impl
from ..explore import get_mm
from ..img_py import resolve, py_type, same_type, Unmappable
from ..mm import MM, method_constant, camel_of_attr
from ..runner import Result, Violation

PROP = "C09"


def catalogue(mm: MM, lsp):
    vs = []
    stats = {"methods": 0, "facets": 0, "registry_names": 0, "fields_resolved": 0}

    def bad(kind, site, what):
        vs.append(Violation(PROP, kind, site, what, {"engine": "BISIM", "site": site, "input": None}))

    table = getattr(lsp, "METHOD_TO_TYPES", {})
    methods = {}
    for r in mm.requests:
        methods[r["method"]] = ("request", r)
    for n in mm.notifications:
        methods[n["method"]] = ("notification", n)

    def and_class(t):
        names = {p["name"] for p in mm.and_props(t)}
        for c in vars(lsp).values():
            if isinstance(c, type) and attrs.has(c) and c.__name__ not in mm.structures and \
                    {camel_of_attr(a.name) for a in attrs.fields(c)} == names:
                return c
        return None

    def type_obj(t, label, m):
        if t is None:
            return None
        if isinstance(t, list):
            return "unsupported"
        if t["kind"] == "and":
            return and_class(t)
        if t["kind"] == "reference":
            return getattr(lsp, t["name"], None)
        try:
            return py_type(mm, t, lsp)
        except Unmappable:
            return "unmappable"

    for method, (role, m) in methods.items():
        stats["methods"] += 1
        site = method
        entry = table.get(method)
        stats["facets"] += 1
        if entry is None:
            bad("missing-method", site, "METHOD_TO_TYPES has no entry for %s" % method)
            continue
        if not (isinstance(entry, tuple) and len(entry) == 4):
            bad("entry-shape", site, "METHOD_TO_TYPES[%s] is not a 4-tuple" % method)
            continue
        if role == "request":
            req_name, resp_name, _ = mm.request_class_names(m)
        else:
            req_name, resp_name = mm.notification_class_name(m), None
        req_cls = getattr(lsp, req_name, None)
        stats["facets"] += 1
        if req_cls is None or entry[0] is not req_cls:
            bad("request-class", site, "METHOD_TO_TYPES[%s][0] is %r, metamodel gives class %s" % (method, getattr(entry[0], "__name__", entry[0]), req_name))
        stats["facets"] += 1
        if resp_name is None:
            if entry[1] is not None:
                bad("response-class", site, "notification %s has a response class %r" % (method, entry[1]))
        else:
            resp_cls = getattr(lsp, resp_name, None)
            if resp_cls is None or entry[1] is not resp_cls:
                bad("response-class", site, "METHOD_TO_TYPES[%s][1] is %r, metamodel gives class %s" % (method, getattr(entry[1], "__name__", entry[1]), resp_name))
        stats["facets"] += 1
        want_p = type_obj(m.get("params"), "params", m)
        if not (entry[2] is want_p or same_type(entry[2], want_p)):
            bad("params-type", site, "METHOD_TO_TYPES[%s][2] is %r, metamodel params are %s" % (method, getattr(entry[2], "__name__", entry[2]), _tn(m.get("params"))))
        stats["facets"] += 1
        want_r = type_obj(m.get("registrationOptions"), "registrationOptions", m)
        if not (entry[3] is want_r or same_type(entry[3], want_r)):
            bad("registration-type", site, "METHOD_TO_TYPES[%s][3] is %r, metamodel registration options are %s" % (method, getattr(entry[3], "__name__", entry[3]), _tn(m.get("registrationOptions"))))
        # default method of the message class, field types of the envelope
        if req_cls is not None and attrs.has(req_cls):
            stats["facets"] += 1
            f = {a.name: a for a in attrs.fields(req_cls)}
            if "method" not in f or f["method"].default != method:
                bad("default-method", site, "%s().method defaults to %r instead of %r" % (req_name, f.get("method") and f["method"].default, method))
            stats["facets"] += 1
            if "params" in f:
                got = resolve(f["params"].type, lsp)
                if m.get("params") is None:
                    ok = f["params"].default is None
                else:
                    ok = want_p is not None and (got is want_p or same_type(got, want_p)) and f["params"].default is attrs.NOTHING
                if not ok:
                    bad("envelope-params", site, "%s.params is annotated %s (default %r), metamodel params are %s" % (req_name, str(got)[:80], f["params"].default, _tn(m.get("params"))))
            else:
                bad("envelope-params", site, "%s has no params attribute" % req_name)
        # JSON-RPC envelope fields of the message classes
        for cls_name, role2 in ((req_name, role), (resp_name, "response")):
            cobj = getattr(lsp, cls_name, None) if cls_name else None
            if cobj is None or not attrs.has(cobj):
                continue
            f = {a.name: a for a in attrs.fields(cobj)}
            stats["facets"] += 2
            if "jsonrpc" not in f or f["jsonrpc"].default != "2.0":
                bad("envelope-jsonrpc", site, "%s.jsonrpc does not default to '2.0'" % cls_name)
            if role2 == "notification":
                if "id" in f:
                    bad("envelope-id", site, "notification class %s has an id attribute" % cls_name)
            else:
                want_id = typing.Union[int, str] if role2 == "request" else typing.Optional[typing.Union[int, str]]
                if "id" not in f or not same_type(resolve(f["id"].type, lsp), want_id) or f["id"].default is not attrs.NOTHING:
                    bad("envelope-id", site, "%s.id is %s (default %r), expected required %s" % (
                        cls_name, f.get("id") and str(f["id"].type)[:60], f.get("id") and f["id"].default, want_id))
            extra_fields = set(f) - {"id", "params", "method", "jsonrpc", "result"}
            if extra_fields:
                bad("envelope-extra", site, "%s has attributes %s that are no JSON-RPC envelope fields" % (cls_name, sorted(extra_fields)))
        if resp_name is not None:
            resp_cls = getattr(lsp, resp_name, None)
            if resp_cls is not None and attrs.has(resp_cls):
                stats["facets"] += 1
                f = {a.name: a for a in attrs.fields(resp_cls)}
                if "result" not in f:
                    bad("envelope-result", site, "%s has no result attribute" % resp_name)
                else:
                    got = resolve(f["result"].type, lsp)
                    try:
                        want = py_type(mm, m.get("result") or {"kind": "base", "name": "null"}, lsp)
                        inner = typing.Optional[want]
                        if not (same_type(got, want) or same_type(got, inner)):
                            bad("envelope-result", site, "%s.result is annotated %s, metamodel result maps to %s" % (resp_name, str(got)[:100], str(want)[:100]))
                    except Unmappable as e:
                        bad("envelope-result", site, "cannot map result: %s" % e)
        # constant
        stats["facets"] += 1
        const = method_constant(method)
        if getattr(lsp, const, None) != method:
            bad("constant", site, "constant %s is %r instead of %r" % (const, getattr(lsp, const, None), method))
        # direction
        stats["facets"] += 1
        try:
            d = lsp.message_direction(method)
        except Exception as e:  # noqa: BLE001
            d = "raises %s" % type(e).__name__
        if d != m["messageDirection"]:
            bad("direction", site, "message_direction(%s) is %r, metamodel says %r" % (method, d, m["messageDirection"]))
    for method in table:
        stats["facets"] += 1
        if method not in methods:
            bad("extra-method", str(method), "METHOD_TO_TYPES has an entry %r that is no method of the metamodel" % (method,))
    dirs = getattr(lsp, "_MESSAGE_DIRECTION", None)
    if isinstance(dirs, dict):
        for method in dirs:
            stats["facets"] += 1
            if method not in methods:
                bad("extra-direction", str(method), "direction table has %r which is no method of the metamodel" % (method,))
    # method constants: every upper-case str constant whose value looks like a method must be one
    for n, v in vars(lsp).items():
        if n.isupper() and isinstance(v, str) and not n.startswith("_") and ("/" in v or v in methods):
            stats["facets"] += 1
            if v not in methods:
                bad("extra-constant", n, "constant %s = %r is no method of the metamodel" % (n, v))
    # ---- registry (checked twice: as imported, and again after the first get_converter(), which resolves
    # forward references through the registry and must leave it complete)
    return _registry(mm, lsp, vs, stats, bad)


def _registry(mm, lsp, vs, stats, bad, second_pass=False):
    reg = getattr(lsp, "ALL_TYPES_MAP", {})
    for n, c in vars(lsp).items():
        if n.startswith("__") or (n.startswith("_") and n not in mm.structures and n not in mm.aliases and n not in mm.enums):
            continue            # module helpers (_SPECIAL_PROPERTIES ...); protocol types may start with one underscore
        is_proto = False
        if isinstance(c, type) and getattr(c, "__module__", None) == lsp.__name__ and (attrs.has(c) or issubclass(c, enum.Enum)):
            is_proto = True
        elif n in mm.aliases or n in mm.structures:
            is_proto = True
        elif typing.get_origin(c) is not None and n.endswith("Result") and not n.isupper():
            is_proto = True
        if not is_proto:
            continue
        stats["registry_names"] += 1
        if n not in reg:
            bad("registry-missing", n, "protocol type %s is not in ALL_TYPES_MAP" % n)
        elif reg[n] is not c and not same_type(reg[n], c):
            bad("registry-wrong", n, "ALL_TYPES_MAP[%r] is not the object named %s" % (n, n))
    for n, c in reg.items():
        if n == "__builtins__":
            continue
        stats["registry_names"] += 1
        if getattr(lsp, n, None) is not c and not same_type(getattr(lsp, n, None), c):
            bad("registry-extra", n, "ALL_TYPES_MAP[%r] is not lsprotocol.types.%s" % (n, n))
    if not second_pass:
        impl.converter()
        return _registry(mm, lsp, vs, stats, bad, second_pass=True)
    # dynamic: after the first get_converter no field is a string / ForwardRef
    classes = {n: c for n, c in reg.items() if isinstance(c, type) and attrs.has(c)}
    for n, c in vars(lsp).items():
        if isinstance(c, type) and attrs.has(c) and getattr(c, "__module__", None) == lsp.__name__:
            classes.setdefault(n, c)        # also classes the registry forgot
    for n, c in classes.items():
        for a in attrs.fields(c):
            stats["fields_resolved"] += 1
            if _has_fwd(a.type):
                bad("unresolved-field", "%s.%s" % (n, a.name), "annotation of %s.%s still contains a forward reference after get_converter()" % (n, a.name))
    return vs, stats


def _has_fwd(t, depth=0):
    if isinstance(t, (str, typing.ForwardRef)):
        return True
    if depth > 8 or typing.get_origin(t) is typing.Literal:
        return False
    return any(_has_fwd(a, depth + 1) for a in (typing.get_args(t) or ()))


def _tn(t):
    if t is None:
        return "absent"
    if isinstance(t, list):
        return "a list"
    return t.get("name") or t["kind"]


def run(ctx):
    mm = get_mm()
    lsp = impl.lsp()
    res = Result()
    vs, stats = catalogue(mm, lsp)
    res.merge_violations(vs)
    res.coverage = {
        "states": stats["methods"] + stats["registry_names"], "transitions": stats["facets"] + stats["fields_resolved"],
        "traces_validated_against_impl": stats["facets"] + stats["fields_resolved"],
        "evaluations": stats["facets"] + stats["fields_resolved"], "distinct_nontrivial": stats["methods"],
        "rule": "every method of the metamodel x {entry, request class, response class, params, registration options, default method, envelope "
                "params/result annotation, constant, direction}; reverse: every key of METHOD_TO_TYPES / direction table / method-like constant; "
                "every protocol type object of the module vs ALL_TYPES_MAP in both directions; every attrs field resolved after get_converter()",
        **stats, "exhaustive": True,
        "samples": [{"method": "textDocument/hover", "entry": [getattr(x, "__name__", str(x)) for x in lsp.METHOD_TO_TYPES.get("textDocument/hover", ())]}],
    }
    res.assumptions = ["class names follow the documented rule (typeName, else method in UpperCamel; suffix Request/Notification added once)"]
    return res


def replay(ctx, doc):
    r = run(ctx)
    return "; ".join(v.what for v in r.violations.values() if v.site == doc.get("site")) or None
