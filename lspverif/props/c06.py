"""C06 - the generator is correct on every schema-valid evolution of the metamodel (EVO)."""
from __future__ import annotations

import copy
import hashlib
import json
import logging
import multiprocessing as mp
import os
import shutil
import subprocess
import time

from .. import impl, docs, schemawalk, evo
from ..genrun import run_cli, scratch, rm, rustfmt, PY
from ..mm import canon
from ..runner import Result, Violation, load_known, match_known, VERIF
from . import c07, c08

PROP = "C06"
_G = {}


class _Inner:
    def __init__(self, prop, sig, what, node=None):
        self.prop, self.sig, self.what, self.node = prop, sig, what, node


def _state_task(idx):
    label, cls, doc = _G["states"][idx]
    thorough = _G["thorough"]
    work = scratch("lspverif-c06-")
    res = {"label": label, "class": cls, "violations": [], "stats": {}, "wall": 0}
    t0 = time.time()

    def add(checker, sig, what, inp=None, root=None):
        res["violations"].append({"checker": checker, "sig": sig, "what": what, "input": inp, "root": root})

    try:
        # (1) the edit operators must stay inside the schema
        errs = list(_G["validator"].iter_errors(doc))
        if errs:
            add("C06", "C06:selfcheck:schema", "edit produced a schema-invalid document: %s" % errs[0].message[:200])
            return res
        mp_ = docs.write(doc, os.path.join(work, "model.json"))
        # (2)+(3) python plugin through the real CLI
        po, pt = os.path.join(work, "py_o"), os.path.join(work, "py_t")
        os.makedirs(po), os.makedirs(pt)
        r = run_cli("python", po, pt, [mp_])
        py_ok = r.returncode == 0 and os.path.exists(os.path.join(po, "lsprotocol", "types.py"))
        if not py_ok:
            add("C06", "C06:plugin-fails:python", "python plugin exits %d on the evolved model: %s" % (r.returncode, _tail(r)))
        # (4) rust
        ro, rt = os.path.join(work, "rs_o"), os.path.join(work, "rs_t")
        os.makedirs(ro), os.makedirs(rt)
        r = run_cli("rust", ro, rt, [mp_])
        if r.returncode != 0:
            add("C06", "C06:plugin-fails:rust", "rust plugin exits %d on the evolved model: %s" % (r.returncode, _tail(r)))
        else:
            lib = os.path.join(ro, "lsprotocol", "src", "lib.rs")
            f = rustfmt(lib)
            if f.returncode != 0:
                add("C06", "C06:rust-does-not-parse", "rustfmt rejects the Rust source generated for the evolved model: %s" % f.stderr[-300:])
            else:
                vs, st = c07.bisim(doc, open(lib, encoding="utf-8").read())
                res["stats"]["c07_facets"] = st.get("facets", 0)
                for v in vs:
                    add("C07", v.sig, v.what)
        # (5) dotnet
        do, dt = os.path.join(work, "cs_o"), os.path.join(work, "cs_t")
        os.makedirs(do), os.makedirs(dt)
        r = run_cli("dotnet", do, dt, [mp_])
        if r.returncode != 0:
            add("C06", "C06:plugin-fails:dotnet", "dotnet plugin exits %d on the evolved model: %s" % (r.returncode, _tail(r)))
        else:
            try:
                from ..img_cs import parse_dir
                decls, n = parse_dir(os.path.join(do, "lsprotocol"))
                vs, st = c08.bisim(doc, decls, n)
                res["stats"]["c08_facets"] = st.get("facets", 0)
                for v in vs:
                    add("C08", v.sig, v.what)
            except Exception as e:  # noqa: BLE001
                add("C06", "C06:dotnet-output-unparsable", "generated C# is outside the emitted subset: %s" % e)
        # (3)(6) evolved Python package + vectors, in a fresh interpreter
        if py_ok:
            pkg = os.path.join(work, "pkg", "lsprotocol")
            os.makedirs(pkg)
            src_pkg = os.path.join(impl.REPO, "packages", "python", "lsprotocol")
            for f in os.listdir(src_pkg):
                if f.endswith(".py") and f != "types.py" or f == "py.typed":
                    shutil.copy(os.path.join(src_pkg, f), os.path.join(pkg, f))
            shutil.copy(os.path.join(po, "lsprotocol", "types.py"), os.path.join(pkg, "types.py"))
            env = dict(os.environ)
            env.update({"LSPVERIF_PYPKG": os.path.join(work, "pkg"), "LSPVERIF_MODEL": mp_, "PYTHONPATH": VERIF, "PYTHONHASHSEED": "0",
                        "PYTHONDONTWRITEBYTECODE": "1"})
            outp = os.path.join(work, "state.json")
            pr = subprocess.run([PY, "-m", "lspverif.evo_state", _G["base_path"], _G["base_names"], outp, "3" if thorough else "2"],
                                cwd=VERIF, env=env, capture_output=True, text=True, timeout=1800)
            if pr.returncode != 0 or not os.path.exists(outp):
                add("C06", "C06:state-evaluation-crashed", "evaluation subprocess failed: %s" % (pr.stderr or pr.stdout)[-400:])
            else:
                st = json.load(open(outp))
                if st["import_error"]:
                    add("C06", "C06:python-module-does-not-import", "the emitted types.py does not import with the unchanged runtime files: %s" % st["import_error"])
                for v in st["violations"]:
                    res["violations"].append(v)
                res["stats"].update(st["stats"])
    except Exception as e:  # noqa: BLE001
        add("C06", "C06:harness", "harness error: %r" % (e,))
    finally:
        rm(work)
        res["wall"] = round(time.time() - t0, 1)
    return res


def _tail(r):
    t = (r.stderr or r.stdout or "").strip().splitlines()
    return " | ".join(t[-2:])[:300]


def run(ctx):
    res = Result()
    impl.setup_paths()
    base = docs.committed()
    schema, rooted = schemawalk.load_schema()
    _G["validator"] = schemawalk.validator(rooted)
    _G["thorough"] = ctx.thorough
    states = evo.depth1(base, ctx.thorough)
    d2 = evo.depth2_core(base)
    states += d2 if ctx.thorough else d2[:3]
    seen = {}
    uniq = []
    for label, cls, doc in states:
        h = hashlib.sha256(canon(doc).encode()).hexdigest()
        if h in seen:
            continue
        seen[h] = label
        uniq.append((label, cls, doc))
    _G["states"] = uniq
    work = scratch("lspverif-c06base-")
    try:
        _G["base_path"] = docs.write(base, os.path.join(work, "base.json"))
        # base run of the vector generator (names contain the content hash)
        logging.disable(logging.CRITICAL)
        model = impl.generator_module("generator.model")
        tg = impl.generator_module("generator.plugins.testdata.testdata_generator")
        data = tg.generate(model.create_lsp_model([copy.deepcopy(base)]), logging.getLogger("lspverif-testdata"))
        logging.disable(logging.NOTSET)
        _G["base_names"] = os.path.join(work, "base_names.txt")
        with open(_G["base_names"], "w") as f:
            f.write("\n".join(sorted(data)))
        del data
        W = max(1, min(ctx.workers, 16, len(uniq)))
        with mp.get_context("fork").Pool(W) as pool:
            results = pool.map(_state_task, range(len(uniq)), chunksize=1)
    finally:
        rm(work)
    known = load_known()
    tot = {"vse_evaluations": 0, "c04_facets": 0, "c07_facets": 0, "c08_facets": 0, "c09_facets": 0, "vectors_new_or_changed": 0,
           "vse_states": 0, "vse_transitions": 0}
    inherited = 0
    samples = []
    per_state = []
    for r in results:
        for k in tot:
            tot[k] += r["stats"].get(k, 0) or 0
        per_state.append({"edit": r["label"], "class": r["class"], "affected_roots": r["stats"].get("affected_count"),
                          "violations": len(r["violations"]), "wall_s": r["wall"]})
        for v in r["violations"]:
            inner = _Inner(v["checker"], v["sig"], v["what"], v.get("input"))
            if v["checker"] != "C06" and match_known(inner, known) is not None:
                inherited += 1          # a known finding of the base tree, reported under its own property
                continue
            res.add(Violation(PROP, v["checker"], r["class"], "after edit [%s]: %s" % (r["label"], v["what"]),
                              {"engine": "EVO", "edits": r["label"], "edit_class": r["class"], "checker": v["checker"], "checker_signature": v["sig"],
                               "input": v.get("input"), "root": v.get("root")}, node=v.get("input"), extra=v["sig"]))
    for r in results[:2] + results[-1:]:
        samples.append({"edit_sequence": r["label"], "class": r["class"], "affected_roots": r["stats"].get("affected_roots", [])[:6]})
    nstates = len(uniq)
    res.coverage = {
        "states": nstates, "transitions": nstates * 4 + tot["c04_facets"] + tot["c07_facets"] + tot["c08_facets"] + tot["c09_facets"],
        "traces_validated_against_impl": tot["vse_evaluations"] + tot["vectors_new_or_changed"] + nstates * 4,
        "evaluations": tot["vse_evaluations"] + tot["vectors_new_or_changed"] + nstates * 4,
        "distinct_nontrivial": nstates - 1,
        "rule": "breadth-first over spec-evolution edits from the committed model: depth 1 over the %s edit alphabet (E0 identity, E1 new structure, "
                "E2 new property x owner x type x name x optionality, E3 inheritance, E4 enumerations, E5 requests/notifications, E6 marks, E7 removal) "
                "plus %d dependent depth-2 sequences; states de-duplicated on the canonical JSON hash; per state: schema validity of the document, "
                "python/rust/dotnet plugins through the real CLI, testdata generate() in-process, import of the emitted module with the unchanged "
                "runtime files in a fresh interpreter, BISIM C04/C09/C07/C08 for the evolved model, VSE (C01 C02 C03 C10, k<=%d) on the affected "
                "region, C17 on every new or changed vector" % ("full" if ctx.thorough else "representative", len(d2) if ctx.thorough else 3, 3 if ctx.thorough else 2),
        **tot, "violations_inherited_from_known_findings_of_the_base": inherited,
        "per_state": per_state, "exhaustive": True, "samples": samples,
    }
    res.assumptions = ["edits stay inside the generator's documented input discipline (DESIGN 2.4); sequences longer than 2 and edits outside the alphabet are not covered",
                       "the testdata plugin is exercised through its generate() function (file writing is C16's subject)"]
    return res


def replay(ctx, doc):
    """Re-evaluates only the state named by the replay file (same edit sequence on the current tree)."""
    impl.setup_paths()
    base = docs.committed()
    schema, rooted = schemawalk.load_schema()
    _G["validator"] = schemawalk.validator(rooted)
    _G["thorough"] = True
    states = evo.depth1(base, True) + evo.depth2_core(base)
    match = [st for st in states if st[0] == doc.get("edits")]
    if not match:
        return None
    _G["states"] = match[:1]
    work = scratch("lspverif-c06replay-")
    try:
        _G["base_path"] = docs.write(base, os.path.join(work, "base.json"))
        _G["base_names"] = "-"
        r = _state_task(0)
    finally:
        rm(work)
    known = load_known()
    left = []
    for v in r["violations"]:
        inner = _Inner(v["checker"], v["sig"], v["what"], v.get("input"))
        if v["checker"] != "C06" and match_known(inner, known) is not None:
            continue
        if doc.get("checker_signature") in (None, v["sig"]) or v["checker"] == doc.get("checker"):
            left.append(v["what"])
    return "; ".join(left)[:600] or None
