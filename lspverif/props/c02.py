"""C02 - objects built with the public constructors serialise to the exact spec JSON."""
from __future__ import annotations

import typing

import attrs

from .. import impl
from ..explore import explore_roots, get_mm, root_class, leaf_exc, jround
from ..mm import ref, json_eq, snake, camel_of_attr, ANY_ALIASES, is_null_type
from ..runner import Result, Violation

PROP = "C02"


class Unsupported(Exception):
    pass


class Picker:
    """Choice sequence over union positions (stateless exploration: replay a prefix, then 0)."""

    def __init__(self, prefix):
        self.prefix = list(prefix)
        self.trace = []      # (chosen, n_options)

    def pick(self, n):
        i = len(self.trace)
        c = self.prefix[i] if i < len(self.prefix) else 0
        if c >= n:
            raise RuntimeError("replay divergence: choice %d of %d" % (c, n))
        self.trace.append((c, n))
        return c


def find_literal_class(ann, names, depth=0):
    if depth > 6:
        return None
    if isinstance(ann, type) and attrs.has(ann):
        if {camel_of_attr(a.name) for a in attrs.fields(ann)} == set(names):
            return ann
        return None
    for a in typing.get_args(ann) or ():
        r = find_literal_class(a, names, depth + 1)
        if r is not None:
            return r
    return None


def build(mm, j, t, picker, ann=None, strip_literals=False, always=()):
    """-> (python object built by public constructors, expected normal form)."""
    lsp = impl.lsp()
    k = t["kind"]
    if k == "or":
        alts = mm.alternatives(j, t, True)
        if not alts:
            raise Unsupported("no strictly valid alternative")
        i = alts[picker.pick(len(alts))] if len(alts) > 1 else alts[0]
        return build(mm, j, t["items"][i], picker, ann, strip_literals)
    if k == "base":
        if t["name"] == "decimal" and j is not None:
            return float(j), j
        return j, j
    if k in ("stringLiteral", "integerLiteral", "booleanLiteral"):
        return j, j
    if k == "reference":
        n = t["name"]
        if n in mm.enums:
            cls = getattr(lsp, n)
            for v in mm.enums[n]["values"]:
                if json_eq(v["value"], j):
                    return cls(j), j
            return j, j            # custom value of an open enumeration
        if n in mm.aliases:
            if n in ANY_ALIASES:
                return j, j
            return build(mm, j, mm.aliases[n]["type"], picker, getattr(lsp, n, None), strip_literals)
        cls = getattr(lsp, n)
        if n in mm.structures:
            return build_obj(mm, j, mm.flatten(n), (), cls, picker, strip_literals)
        e = mm.envelopes()[n]
        return build_obj(mm, j, e["properties"], e["always"], cls, picker, strip_literals)
    if k == "array":
        ea = None
        if ann is not None:
            args = [a for a in typing.get_args(ann) if a is not type(None)]
            ea = args[0] if len(args) == 1 else ann
        pairs = [build(mm, x, t["element"], picker, ea, strip_literals) for x in j]
        return [p[0] for p in pairs], [p[1] for p in pairs]
    if k == "tuple":
        pairs = [build(mm, x, it, picker, None, strip_literals) for x, it in zip(j, t["items"])]
        return tuple(p[0] for p in pairs), [p[1] for p in pairs]
    if k == "map":
        pairs = {kk: build(mm, v, t["value"], picker, ann, strip_literals) for kk, v in j.items()}
        return {kk: p[0] for kk, p in pairs.items()}, {kk: p[1] for kk, p in pairs.items()}
    if k == "literal":
        props = t["value"].get("properties", [])
        if not props:
            return j, j
        cls = find_literal_class(ann, [p["name"] for p in props]) if ann is not None else None
        if cls is None:
            raise Unsupported("no generated class found for anonymous literal")
        return build_obj(mm, j, props, (), cls, picker, strip_literals)
    if k == "and":
        raise Unsupported("and-type")
    raise Unsupported(k)


def build_obj(mm, j, props, always, cls, picker, strip_literals):
    kwargs = {}
    expect = {}
    fields = {a.name: a for a in attrs.fields(cls)}
    for p in props:
        n = p["name"]
        attr = snake(n)
        lit = p["type"]["kind"] == "stringLiteral"
        if n in j:
            if j[n] is None:
                if attr not in fields:
                    raise KeyError("no attribute %s for property %s.%s" % (attr, cls.__name__, n))
                from ..mm import admits_null
                kwargs[attr] = None
                if p.get("omit_when_unset"):
                    pass
                elif admits_null(p["type"]) or n in always or not p.get("optional"):
                    expect[n] = None
                continue
            if lit and strip_literals:
                expect[n] = p["type"]["value"]
                continue
            if attr not in fields:
                raise KeyError("no attribute %s for property %s.%s" % (attr, cls.__name__, n))
            o, e = build(mm, j[n], p["type"], picker, fields[attr].type, strip_literals)
            kwargs[attr] = o
            expect[n] = e
        else:
            from ..mm import admits_null
            if lit:
                expect[n] = p["type"]["value"]
            elif p.get("omit_when_unset"):
                pass
            elif admits_null(p["type"]) or n in always:
                expect[n] = None
    return cls(**kwargs), expect


def one(mm, name, j, prefix, strip):
    """-> (status, detail, picker)"""
    conv = impl.converter()
    cls = root_class(name)
    picker = Picker(prefix)
    try:
        obj, expect = build(mm, j, ref(name), picker, cls if name in mm.aliases else None, strip)
    except Unsupported as e:
        return "skip", str(e), picker
    except Exception as e:  # noqa: BLE001 - constructor rejected a valid value / attribute missing
        return "construct-raise", "%s: %s" % (type(e).__name__, str(e)[:150]), picker
    try:
        if name in mm.aliases:
            u = jround(conv.unstructure(obj))
        else:
            u = jround(conv.unstructure(obj, cls))
    except Exception as e:  # noqa: BLE001
        return "unstructure-raise", "%s: %s" % leaf_exc(e), picker
    if not json_eq(u, expect):
        return "wrong-json", {"expected": expect, "observed": u}, picker
    try:
        u2 = jround(conv.unstructure(conv.structure(u, cls), cls)) if name not in mm.aliases else jround(conv.unstructure(conv.structure(u, cls)))
    except Exception as e:  # noqa: BLE001
        return "restructure-raise", "%s: %s" % leaf_exc(e), picker
    if not json_eq(u2, u):
        return "restructure-differs", {"expected": u, "observed": u2}, picker
    return "ok", None, picker


def diff_site(expected, observed, path=""):
    """First differing position, as a wire-name path without indices."""
    if isinstance(expected, dict) and isinstance(observed, dict):
        for kk in sorted(set(expected) | set(observed)):
            if kk not in observed:
                return path + "." + kk + ":missing"
            if kk not in expected:
                return path + "." + kk + ":extra"
            if not json_eq(expected[kk], observed[kk]):
                return diff_site(expected[kk], observed[kk], path + "." + kk)
        return path
    if isinstance(expected, list) and isinstance(observed, list) and len(expected) == len(observed):
        for a, b in zip(expected, observed):
            if not json_eq(a, b):
                return diff_site(a, b, path + "[]")
    return path + ":value"


def judge(mm, name, j, opts):
    max_dev = opts.get("max_dev", 1)
    cap = opts.get("cap_combos", 24)
    n = 0
    vs = []
    outcome = "ok"
    for strip in (False, True):
        # iterative deviation bounding over the choice sequence (union alternatives)
        work = [[]]
        done = 0
        while work and done < cap:
            prefix = work.pop(0)
            st, detail, picker = one(mm, name, j, prefix, strip)
            n += 1
            done += 1
            if st == "skip":
                outcome = "skip"
                break
            if st != "ok":
                outcome = st
                if isinstance(detail, dict):
                    site = name + diff_site(detail["expected"], detail["observed"])
                    what = "%s: constructor-built object serialises to %s instead of the normal form" % (site, st)
                    extra = ""
                else:
                    site = name
                    what = "%s: %s %s" % (name, st, detail)
                    extra = detail.split(":")[0]
                vs.append(Violation(PROP, st, site, what,
                                    {"engine": "VSE", "root": name, "input": j, "choices": prefix, "strip_literals": strip,
                                     "observed": detail}, node=j, extra=extra))
            devs = sum(1 for c in prefix if c)
            if devs < max_dev:
                for i in range(len(prefix), len(picker.trace)):
                    nopt = picker.trace[i][1]
                    for alt in range(1, nopt):
                        work.append([c for c, _ in picker.trace[:i]] + [alt])
        if outcome == "skip":
            break
    return n, outcome, vs


def _site_task(args):
    idx, k = args
    from . import c14
    from ..vse import VSE
    mm = get_mm()
    vse = VSE(mm)
    ok, on, path, ort, via = c14.union_sites(mm)[idx]
    n = 0
    vs = []
    roots = [r for r in c14.roots_for_site(mm, ok, on, path) if root_class(r[0]) is not None and r[0] not in mm.aliases]
    for alt in ort["items"]:
        if is_null_type(alt):
            continue
        for slabel, v in c14.shapes(mm, vse, alt, k, site_or=ort):
            if slabel.startswith("max-"):
                continue
            for rname, rt, rpath in roots:
                j = c14.embed(mm, vse, rt, rpath, v)
                if j is None or not mm.valid(j, rt, True):
                    continue
                ne, oc, out = judge(mm, rname, j, {"max_dev": 1, "cap_combos": 4})
                n += ne
                vs += out
    return n, vs, vse.states, vse.transitions


def run(ctx):
    mm = get_mm()
    res = Result()
    lsp = impl.lsp()
    roots = [n for k, n in mm.roots() if hasattr(lsp, n)]
    kmin, kmax = (3, 1) if ctx.thorough else (2, 0)
    opts = {"cap_s": 300 if ctx.thorough else 120, "max_dev": 2 if ctx.thorough else 1, "cap_combos": 16 if ctx.thorough else 24,
            "max_base_n1_limit": 250}
    a, v = explore_roots(ctx, judge, roots, kmin, kmax, opts)
    res.merge_violations(v)
    import multiprocessing as mp
    from . import c14
    nsites = len(c14.union_sites(mm))
    with mp.get_context("fork").Pool(ctx.workers) as pool:
        parts = pool.map(_site_task, [(i, 1) for i in range(nsites)], chunksize=2)
    for n_, vs_, st_, tr_ in parts:
        a["evals"] += n_
        a["states"] += st_
        a["transitions"] += tr_
        res.merge_violations(vs_)
    res.coverage = {
        "states": a["states"], "transitions": a["transitions"],
        "traces_validated_against_impl": a["evals"], "evaluations": a["evals"],
        "distinct_nontrivial": a["distinct_nt"],
        "rule": "every VSE derivation of every root x every choice of class at union positions (choice-sequence exploration, <=%d non-default "
                "choices, <=%d sequences per value) x {literals passed, literals left to constructor defaults}; object built with public "
                "constructors (snake_case kwargs), unstructured, compared for exact equality with MM.nf, then re-structured and re-serialised; the "
                "union-site shapes of C14 (single-element and heterogeneous arrays) are further base values" % (opts["max_dev"], opts["cap_combos"]),
        "roots": a["roots"], "bounds": {"min_base_k": kmin, "max_base_k": kmax},
        "outcome_classes": a["outcomes"], "capped_roots": a["capped"], "exhaustive": not a["capped"], "samples": a["samples"],
    }
    res.assumptions = ["attribute name = documented snake_case rule of MM (independent of the converter's own rename)",
                       "and-types / anonymous literals without a resolvable class are skipped (none in the committed model)"]
    return res


def replay(ctx, doc):
    mm = get_mm()
    st, detail, _ = one(mm, doc["root"], doc["input"], doc.get("choices", []), doc.get("strip_literals", False))
    return None if st in ("ok", "skip") else "%s %s" % (st, str(detail)[:300])
