"""C16 - generation is a deterministic function of the model files alone (HIST)."""
from __future__ import annotations

import hashlib
import json
import multiprocessing as mp
import os
import re
import shutil

from .. import impl, docs
from ..genrun import run_cli, scratch, rm, digest_tree
from ..hist import run_inprocess, UuidStream, unintercepted_sets
from ..runner import Result, Violation

PROP = "C16"
UUID_RE = re.compile(rb"[0-9a-f]{8}-[0-9a-f]{4}-[0-9a-f]{4}-[0-9a-f]{4}-[0-9a-f]{12}")
FOREIGN = {"README.md": "hand written\n", os.path.join("lsprotocol", "NOTES.md"): "hand written too\n"}
FOREIGN_TEST = {"KEEP.txt": "keep me\n"}

STALE_OWNED = {
    "python": {os.path.join("lsprotocol", "types.py"): "# stale file from an earlier model\nclass Zombie: pass\n"},
    "rust": {os.path.join("lsprotocol", "src", "lib.rs"): "// stale\npub struct Zombie {}\n"},
    "dotnet": {os.path.join("lsprotocol", "Zombie.cs"): "public class Zombie {}\n"},
    "testdata": {"Zombie-True-0000.json": "{}\n", "ZombieRequest-False-1111.json": "{}\n"},
}
SEAMS = [("asc", "A"), ("desc", "B"), ("rot", None)]


def prepare_test_dir(plugin, test_dir):
    if plugin == "rust":
        src = os.path.join(impl.REPO, "tests", "rust", "src", "main.rs")
        if os.path.exists(src):
            os.makedirs(os.path.join(test_dir, "src"), exist_ok=True)
            shutil.copy(src, os.path.join(test_dir, "src", "main.rs"))


def models_for(plugin, work, thorough):
    """Model files A (base) and B (a different model) for a plugin, sized so that a run is short."""
    com = docs.committed()
    if plugin in ("python", "rust"):
        a = com
        b, _ = docs.without(com, "textDocument/moniker")
    else:
        a = docs.small_base(com)
        b = docs.slice_model(com, methods=("textDocument/colorPresentation", "shutdown", "exit", "textDocument/didOpen"),
                             names=("ParameterInformation", "FoldingRange"))
    if plugin == "testdata":
        a = docs.slice_model(com, methods=("shutdown", "exit", "textDocument/didOpen", "textDocument/willSaveWaitUntil", "textDocument/foldingRange"), names=())
        b = docs.slice_model(com, methods=("shutdown", "textDocument/didOpen", "workspace/didChangeWorkspaceFolders", "textDocument/foldingRange"), names=())
    b = evolve_for_history(b)
    pa = docs.write(a, os.path.join(work, "A.json"))
    pb = docs.write(b, os.path.join(work, "B.json"))
    px = docs.write(extension_model(a), os.path.join(work, "X.json"))
    # a model *list*: the first model extended in order by a second file with several new declarations
    # AL (optional: dropped for a plugin whose reference run does not accept it): a second file with type aliases
    # whose types are anonymous literals with only "generic" member names (ties in the plugins' naming rules)
    pl = docs.write(alias_literal_model(a), os.path.join(work, "L.json"))
    out = {"A": [pa], "B": [pb], "AX": [pa, px], "AL": [pa, pl]}
    if plugin in ("dotnet", "testdata"):
        # K: model A with the typeName of one notification changed in letter case only (same content, file names that
        # differ from A's only in case): what a case-insensitive clean-up leaves behind
        import copy as _copy
        k = _copy.deepcopy(a)
        for msg in k.get("notifications", []) + k.get("requests", []):
            tn = msg.get("typeName")
            if tn and len(tn) > 6:
                msg["typeName"] = tn[0] + tn[1].swapcase() + tn[2:]          # inside the stem: the Request / Notification suffix stays
                break
        out["K"] = [docs.write(k, os.path.join(work, "K.json"))]
    return out


OPTIONAL_MODELS = {"AL"}


def alias_literal_model(base):
    S = lambda n: {"kind": "base", "name": n}      # noqa: E731
    lit = lambda props: {"kind": "literal", "value": {"properties": [{"name": n, "type": t} for n, t in props]}}   # noqa: E731
    doc = {"metaData": dict(base["metaData"]), "requests": [], "notifications": [], "structures": [], "enumerations": [], "typeAliases": []}
    doc["typeAliases"].append({"name": "VerifExtLocator", "type": lit([("position", S("uinteger")), ("location", S("string"))])})
    doc["typeAliases"].append({"name": "VerifExtSpan", "type": lit([("text", S("string")), ("range", S("uinteger"))])})
    doc["typeAliases"].append({"name": "VerifExtOwner", "type": lit([("owner", S("string")), ("label", S("string"))])})
    return doc


def extension_model(base):
    """A second model file: only new declarations (4 structures, 3 enumerations, 2 notifications, 2 requests)
    that refer to declarations of the first file."""
    S = lambda n: {"kind": "base", "name": n}      # noqa: E731
    doc = {"metaData": dict(base["metaData"]), "requests": [], "notifications": [], "structures": [], "enumerations": [], "typeAliases": []}
    for i, nm in enumerate(["Zeta", "Alpha", "Mu", "Beta"]):
        doc["structures"].append({"name": "VerifExt%sParams" % nm, "properties": [{"name": "value%d" % i, "type": S("string")},
                                                                                 {"name": "kind", "type": {"kind": "reference", "name": "VerifExt%sKind" % ["One", "Two", "Three"][i % 3]}, "optional": True}]})
    for nm in ["Two", "One", "Three"]:
        doc["enumerations"].append({"name": "VerifExt%sKind" % nm, "type": S("string"), "values": [{"name": "first", "value": "first"}, {"name": "second", "value": "second"}]})
    doc["notifications"].append({"method": "verifExt/zeta", "typeName": "VerifExtZetaNotification", "params": {"kind": "reference", "name": "VerifExtZetaParams"}, "messageDirection": "clientToServer"})
    doc["notifications"].append({"method": "verifExt/alpha", "typeName": "VerifExtAlphaNotification", "params": {"kind": "reference", "name": "VerifExtAlphaParams"}, "messageDirection": "serverToClient"})
    doc["requests"].append({"method": "verifExt/mu", "typeName": "VerifExtMuRequest", "params": {"kind": "reference", "name": "VerifExtMuParams"}, "result": S("null"), "messageDirection": "clientToServer"})
    # two method strings that map to the same constant / class-name stem, and declarations of the first file declared again
    doc["notifications"].append({"method": "$/verifExt/zeta", "typeName": "VerifExtDollarZetaNotification", "params": {"kind": "reference", "name": "VerifExtZetaParams"}, "messageDirection": "both"})
    import copy as _copy
    for e in base.get("enumerations", [])[:40]:
        if e["name"] in ("MarkupKind", "LanguageKind", "TextDocumentSaveReason"):
            e2 = _copy.deepcopy(e)
            e2["values"].append({"name": "VerifExtra", "value": "verifextra" if e["type"]["name"] == "string" else 99})
            doc["enumerations"].append(e2)
            break
    for st in base.get("structures", []):
        if st["name"] in ("Position", "TextDocumentItem", "WorkspaceFolder"):
            s2 = _copy.deepcopy(st)
            s2["properties"].append({"name": "verifExtra", "type": S("string"), "optional": True})
            doc["structures"].append(s2)
            break
    doc["requests"].append({"method": "verifExt/beta", "typeName": "VerifExtBetaRequest", "params": {"kind": "reference", "name": "VerifExtBetaParams"}, "result": {"kind": "reference", "name": "VerifExtBetaParams"}, "messageDirection": "both"})
    return doc


def evolve_for_history(doc):
    """Model B is not only smaller than A: structures that others extend / mix in gain a property and a
    new structure is mixed into an existing one, so that anything remembered from a run on A (a name
    index, a flattening cache) gives a visibly wrong result for B."""
    import copy
    d = copy.deepcopy(doc)
    names = {s["name"]: s for s in d["structures"]}
    for base, prop in (("WorkDoneProgressOptions", {"name": "verifTitle", "type": {"kind": "base", "name": "string"}, "optional": True}),
                       ("WorkDoneProgressParams", {"name": "verifNote", "type": {"kind": "base", "name": "string"}, "optional": True}),
                       ("TextDocumentPositionParams", {"name": "verifFlag", "type": {"kind": "base", "name": "boolean"}, "optional": True}),
                       ("TextDocumentIdentifier", {"name": "verifTag", "type": {"kind": "base", "name": "uinteger"}, "optional": True})):
        if base in names:
            names[base]["properties"].append(prop)
    # enumerations: the first closed one that is referenced becomes open, the first open one becomes closed
    flipped = {"open": False, "close": False}
    referenced = set()

    def _walk(t):
        if isinstance(t, dict):
            if t.get("kind") == "reference":
                referenced.add(t.get("name"))
            for v in t.values():
                _walk(v)
        elif isinstance(t, list):
            for v in t:
                _walk(v)
    for st in d["structures"]:
        for p in st["properties"]:
            _walk(p["type"])
    for e in d.get("enumerations", []):
        if e["name"] not in referenced:
            continue
        if not e.get("supportsCustomValues") and not flipped["open"] and e["type"]["name"] == "string":
            e["supportsCustomValues"] = True
            flipped["open"] = True
        elif e.get("supportsCustomValues") and not flipped["close"]:
            e.pop("supportsCustomValues")
            flipped["close"] = True
    # generic part (also for the small slices): every third structure gains an optional property and the
    # first structure with properties gets a new mixin
    for i, st in enumerate(list(d["structures"])):
        if i % 3 == 0 and not any(p["name"] == "verifHist" for p in st["properties"]):
            st["properties"].append({"name": "verifHist", "type": {"kind": "base", "name": "string"}, "optional": True})
        if i % 5 == 1 and st["name"] not in ("LSPObject",):
            # ... and some gain a REQUIRED property (anything resolved against the old declaration is now invalid)
            st["properties"].append({"name": "verifReq", "type": {"kind": "base", "name": "boolean"}})
    d["structures"].append({"name": "VerifHistoryMixin", "properties": [{"name": "verifMixed", "type": {"kind": "base", "name": "string"}, "optional": True},
                                                                       # proposed AND deprecated at once; a digit directly before a capital
                                                                       {"name": "verif2Way", "type": {"kind": "base", "name": "boolean"}, "optional": True,
                                                                        "proposed": True, "deprecated": "use verifMixed"}]})
    # messages without typeName whose method-derived name already ends in Request / Notification
    d.setdefault("requests", []).append({"method": "verif/confirmRequest", "result": {"kind": "base", "name": "null"}, "messageDirection": "serverToClient"})
    d.setdefault("notifications", []).append({"method": "verif/tickNotification", "messageDirection": "clientToServer"})
    for e in d.get("enumerations", []):
        if e["name"] in referenced and len(e["values"]) > 1:
            e["values"][-1]["proposed"] = True
            e["values"][-1]["deprecated"] = "history"
            break
    for st in d["structures"]:
        if st["properties"] and st["name"] != "VerifHistoryMixin" and st["name"] not in ("LSPObject",):
            st.setdefault("mixins", []).append({"kind": "reference", "name": "VerifHistoryMixin"})
            break
    return d


def place(root, files):
    for rel, content in files.items():
        p = os.path.join(root, rel)
        os.makedirs(os.path.dirname(p) or root, exist_ok=True)
        with open(p, "w", encoding="utf-8") as f:
            f.write(content)


def owned_digest(out_dir, test_dir):
    d = {}
    for k, v in digest_tree(out_dir).items():
        if k not in FOREIGN:
            d["out/" + k] = v
    for k, v in digest_tree(test_dir).items():
        if k not in FOREIGN_TEST:
            d["test/" + k] = v
    return d


def leaks(out_dir, test_dir, markers):
    found = []
    for root in (out_dir, test_dir):
        for d, _, files in os.walk(root):
            for f in files:
                with open(os.path.join(d, f), "rb") as fh:
                    data = fh.read()
                for m in markers:
                    if m in data:
                        found.append((os.path.relpath(os.path.join(d, f), root), m.decode()))
    return found


def _plugin_task(args):
    plugin, thorough, seed = args
    work = scratch("lspverif-c16-%s-" % plugin)
    out = {"plugin": plugin, "bad": [], "histories": 0, "states": 0, "transitions": 0, "runs": 0, "cli_runs": 0, "samples": [],
           "distinct_outcomes": 0}
    try:
        models = models_for(plugin, work, thorough)
        # ---- reference: fresh directory, fresh process, hash seed 0 -- twice (must agree with itself)
        ref = {}
        unsupported = []
        for mk, mp_ in models.items():
            digs = []
            uuid_sets = []
            for rep in range(2):
                o, t = os.path.join(work, "ref_o"), os.path.join(work, "ref_t")
                os.makedirs(o), os.makedirs(t)
                prepare_test_dir(plugin, t)
                r = run_cli(plugin, o, t, mp_, hashseed="0")
                out["cli_runs"] += 1
                if r.returncode != 0 and mk in OPTIONAL_MODELS:
                    unsupported.append(mk)
                    rm(o), rm(t)
                    break
                if r.returncode != 0:
                    out["bad"].append(("reference-fails", plugin, "reference run of %s on model %s exits %d: %s" % (plugin, mk, r.returncode, (r.stderr or r.stdout)[-200:]), {"history": ["Fresh", "Run(%s)" % mk]}))
                digs.append(owned_digest(o, t))
                uuid_like = set()
                for root in (o, t):
                    for d, _, files in os.walk(root):
                        for f in files:
                            with open(os.path.join(d, f), "rb") as fh:
                                uuid_like |= set(UUID_RE.findall(fh.read()))
                uuid_sets.append(uuid_like)
                if rep == 1:
                    # a *random* identifier differs between two processes; a uuid-shaped string that is the same in
                    # both runs is a constant of the plugin (or comes from the model), not an internal identifier
                    in_model = set()
                    for one in mp_:
                        with open(one, "rb") as fh:
                            in_model |= set(UUID_RE.findall(fh.read()))
                    unstable = (uuid_sets[0] ^ uuid_sets[1]) - in_model
                    if unstable:
                        out["bad"].append(("uuid-leak", plugin, "uuid-shaped strings that differ between two fresh processes appear in the output of %s: %s" % (plugin, sorted(unstable)[:2]), {"history": ["Fresh", "Run(%s)" % mk]}))
                    out["uuid_shaped_constants_in_output"] = len((uuid_sets[0] & uuid_sets[1]) - in_model)
                rm(o), rm(t)
            if mk in unsupported:
                continue
            if digs[0] != digs[1]:
                diff = sorted(set(digs[0].items()) ^ set(digs[1].items()))[:3]
                out["bad"].append(("two-fresh-runs-differ", plugin, "two fresh runs of %s on model %s in new processes (same hash seed) differ: %s" % (plugin, mk, [x[0] for x in diff]), {"history": ["Fresh", "Run(%s)" % mk, "Fresh", "Run(%s)" % mk]}))
            ref[mk] = digs[0]
        for mk in unsupported:
            models.pop(mk, None)
        out["optional_models_not_accepted_by_plugin"] = unsupported
        if ref["A"] == ref["B"]:
            out["bad"].append(("selfcheck", plugin, "models A and B give identical output for %s: the 'different model' dimension is vacuous" % plugin, {}))
        # ---- hash seeds through the real CLI (process dimension)
        for hs in ["1", str(2 + seed % 1000)] + (["4242", "31337"] if thorough else []):
            for mk, mp_ in models.items():
                o, t = os.path.join(work, "hs_o"), os.path.join(work, "hs_t")
                os.makedirs(o), os.makedirs(t)
                prepare_test_dir(plugin, t)
                r = run_cli(plugin, o, t, mp_, hashseed=hs)
                out["cli_runs"] += 1
                d = owned_digest(o, t)
                rm(o), rm(t)
                if r.returncode != 0 or d != ref[mk]:
                    diff = sorted(set(d.items()) ^ set(ref[mk].items()))[:3]
                    out["bad"].append(("hash-seed", plugin, "%s on model %s with PYTHONHASHSEED=%s differs from seed 0 (exit %d): %s" % (plugin, mk, hs, r.returncode, [x[0] for x in diff]),
                                       {"history": ["Fresh", "Run(%s)" % mk], "hashseed": hs}))
        # ---- in-process histories (explicit-state BFS, state = digest of the directories)
        events = [("Run", mk, sm) for mk in (("A", "B", "K") if "K" in models else ("A", "B")) for sm in (SEAMS if thorough else SEAMS[:2])]
        events += [("StaleOwned",), ("CorruptOwned",), ("CrlfOwned",), ("StaleForeign",), ("Fresh",)]
        maxlen = 3
        if plugin in ("dotnet", "testdata") and not thorough:
            maxlen = 2
        streams = {"A": UuidStream(0xA), "B": UuidStream(0xB)}
        markers = [s.issued_prefix.encode() for s in streams.values()]

        def replay(hist):
            o, t = os.path.join(work, "h_o"), os.path.join(work, "h_t")
            rm(o), rm(t)
            os.makedirs(o), os.makedirs(t)
            prepare_test_dir(plugin, t)
            foreign = False
            last = None
            for ev in hist:
                if ev[0] == "Fresh":
                    rm(o), rm(t)
                    os.makedirs(o), os.makedirs(t)
                    prepare_test_dir(plugin, t)
                    foreign = False
                    last = None
                elif ev[0] == "StaleOwned":
                    place(o, STALE_OWNED[plugin])
                    # ... and one file with exactly a generated name (taken from the reference run on A) but other bytes
                    real = sorted(k[4:] for k in ref["A"] if k.startswith("out/"))
                    if real:
                        place(o, {real[0]: "stale bytes under a generated name\n", real[-1]: "{}"})
                    last = None
                elif ev[0] == "CrlfOwned":
                    # the same text with other line endings (a checkout with autocrlf, an editor): not the plugin's output
                    owned = sorted(k for k in digest_tree(o) if k not in FOREIGN)
                    for rel in owned[:2] + owned[-1:]:
                        fp = os.path.join(o, rel)
                        with open(fp, "rb") as fh:
                            raw = fh.read()
                        if b"\r\n" not in raw:
                            with open(fp, "wb") as fh:
                                fh.write(raw.replace(b"\n", b"\r\n"))
                    last = None
                elif ev[0] == "CorruptOwned":
                    # a file with exactly a generated name but different bytes (interrupted run, hand edit)
                    owned = sorted(k for k in digest_tree(o) if k not in FOREIGN)
                    for rel in owned[:1] + owned[-1:]:
                        with open(os.path.join(o, rel), "w", encoding="utf-8") as fh:
                            fh.write("truncated")
                    last = None
                elif ev[0] == "StaleForeign":
                    place(o, FOREIGN)
                    place(t, FOREIGN_TEST)
                    foreign = True
                    last = None
                else:
                    _, mk, (smode, utag) = ev
                    err = run_inprocess(plugin, o, t, models[mk], set_mode=smode, uuid_stream=streams[utag] if utag else None)
                    out["runs"] += 1
                    last = (mk, err)
            return o, t, foreign, last

        seen = {}
        frontier = [[]]
        outcomes = set()
        depth = 0
        while frontier and depth < maxlen:
            depth += 1
            nxt = []
            for hist in frontier:
                for ev in events:
                    h2 = hist + [ev]
                    out["transitions"] += 1
                    o, t, foreign, last = replay(h2)
                    if ev[0] == "Run":
                        out["histories"] += 1
                        mk, err = last
                        label = [_evname(e) for e in h2]
                        if err:
                            out["bad"].append(("run-fails", plugin, "%s fails after history %s: %s" % (plugin, label, err), {"history": label}))
                            outcomes.add("fails")
                        else:
                            d = owned_digest(o, t)
                            outcomes.add(hashlib.sha256(json.dumps(sorted(d.items())).encode()).hexdigest()[:8])
                            if d != ref[mk]:
                                extra = sorted(set(d) - set(ref[mk]))
                                missing = sorted(set(ref[mk]) - set(d))
                                changed = sorted(k for k in d if k in ref[mk] and d[k] != ref[mk][k])
                                kind = "stale-survives" if extra and not missing and not changed else "output-differs"
                                out["bad"].append((kind, plugin, "%s after history %s is not byte-identical to the reference run on model %s: extra=%s missing=%s changed=%s" % (
                                    plugin, label, mk, extra[:3], missing[:3], changed[:3]), {"history": label}))
                            if foreign:
                                for rel, content in list(FOREIGN.items()) + [("<test>/" + k, v) for k, v in FOREIGN_TEST.items()]:
                                    p = os.path.join(t, rel[7:]) if rel.startswith("<test>/") else os.path.join(o, rel)
                                    if not os.path.exists(p) or open(p, encoding="utf-8").read() != content:
                                        out["bad"].append(("foreign-touched", plugin, "%s modified or removed the hand-placed file %s (history %s)" % (plugin, rel, label), {"history": label}))
                            lk = leaks(o, t, markers)
                            if lk:
                                out["bad"].append(("uuid-leak", plugin, "identifiers of the injected uuid stream reach the output of %s: %s" % (plugin, lk[:2]), {"history": label}))
                        if len(out["samples"]) < 2:
                            out["samples"].append({"plugin": plugin, "history": label, "ok": not err})
                    key = json.dumps(sorted(digest_tree(o).items()) + sorted(digest_tree(t).items()))
                    key = hashlib.sha256(key.encode()).hexdigest()
                    if key not in seen:
                        seen[key] = h2
                        nxt.append(h2)
            frontier = nxt
        out["states"] = len(seen)
        out["uuid_issued_by_injected_streams"] = {k: st.n for k, st in streams.items()}   # 0 = the seam does not reach the code
        out["distinct_outcomes"] = len(outcomes)
        out["max_history_length"] = maxlen
    finally:
        rm(work)
    return out


def _cross_task(args):
    """Histories across plugins in ONE process on the same model file: every ordered pair (thorough: triple) of
    distinct plugins; after each run the plugin's output must equal its own reference (fresh process)."""
    thorough, seed = args
    import itertools
    work = scratch("lspverif-c16-cross-")
    out = {"plugin": "cross", "bad": [], "histories": 0, "states": 0, "transitions": 0, "runs": 0, "cli_runs": 0, "samples": [],
           "distinct_outcomes": 0, "max_history_length": 3 if thorough else 2}
    plugins = ["python", "rust", "dotnet"]
    try:
        mp_ = docs.write(docs.committed(), os.path.join(work, "M.json"))
        ref = {}
        for p in plugins:
            o, t = os.path.join(work, "ref_o"), os.path.join(work, "ref_t")
            os.makedirs(o), os.makedirs(t)
            prepare_test_dir(p, t)
            r = run_cli(p, o, t, [mp_], hashseed="0")
            out["cli_runs"] += 1
            if r.returncode != 0:
                out["bad"].append(("reference-fails", p, "reference run of %s exits %d" % (p, r.returncode), {"history": ["Run(%s)" % p]}))
            ref[p] = owned_digest(o, t)
            rm(o), rm(t)
        seqs = list(itertools.permutations(plugins, 2))
        if thorough:
            seqs += list(itertools.permutations(plugins, 3))
        outcomes = set()
        for seq in seqs:
            out["histories"] += 1
            label = ["Run(%s)" % p for p in seq]
            for i, p in enumerate(seq):
                o, t = os.path.join(work, "o"), os.path.join(work, "t")
                rm(o), rm(t)
                os.makedirs(o), os.makedirs(t)
                prepare_test_dir(p, t)
                err = run_inprocess(p, o, t, [mp_])
                out["runs"] += 1
                out["transitions"] += 1
                if err:
                    out["bad"].append(("run-fails", "cross", "%s fails in one process after %s: %s" % (p, label[:i], err), {"history": label[:i + 1]}))
                    outcomes.add("fails")
                    continue
                d = owned_digest(o, t)
                outcomes.add(hashlib.sha256(json.dumps(sorted(d.items())).encode()).hexdigest()[:8])
                if d != ref[p]:
                    changed = sorted(k for k in set(d) | set(ref[p]) if d.get(k) != ref[p].get(k))
                    out["bad"].append(("output-differs", "cross", "%s run in the same process after %s is not byte-identical to its reference run: %s" % (
                        p, label[:i] or "nothing", changed[:3]), {"history": label[:i + 1]}))
            rm(os.path.join(work, "o")), rm(os.path.join(work, "t"))
        out["states"] = len(outcomes)
        out["distinct_outcomes"] = len(outcomes)
        out["samples"].append({"plugin": "cross", "history": ["Run(python)", "Run(rust)"], "ok": True})
    finally:
        rm(work)
    return out


def _any_task(args):
    return _cross_task(args[1:]) if args[0] == "cross" else _plugin_task(args)


def _evname(ev):
    if ev[0] == "Run":
        return "Run(%s,set=%s,uuid=%s)" % (ev[1], ev[2][0], ev[2][1] or "real")
    return ev[0]


def run(ctx):
    res = Result()
    impl.setup_paths()
    plugins = ["python", "rust", "dotnet", "testdata"]
    with mp.get_context("fork").Pool(5) as pool:
        parts = pool.map(_any_task, [(p, ctx.thorough, ctx.seed) for p in plugins] + [("cross", ctx.thorough, ctx.seed)], chunksize=1)
    tot = {"histories": 0, "states": 0, "transitions": 0, "runs": 0, "cli_runs": 0}
    samples = []
    per = {}
    for part in parts:
        for k in tot:
            tot[k] += part[k]
        samples += part["samples"][:1]
        per[part["plugin"]] = {k: part.get(k) for k in ("histories", "states", "runs", "cli_runs", "distinct_outcomes", "max_history_length", "uuid_issued_by_injected_streams", "optional_models_not_accepted_by_plugin")}
        for kind, site, what, rp in part["bad"]:
            r = {"engine": "HIST", "plugin": site, "input": None}
            r.update(rp)
            res.add(Violation(PROP, kind, site, what, r, node=rp.get("history"), extra=_hist_class(rp.get("history"))))
    sets = unintercepted_sets()
    res.coverage = {
        "states": max(tot["states"], 1), "transitions": max(tot["transitions"], 1),
        "traces_validated_against_impl": tot["runs"] + tot["cli_runs"], "evaluations": tot["runs"] + tot["cli_runs"],
        "distinct_nontrivial": tot["histories"],
        "rule": "per plugin: explicit-state BFS over histories of events {Run(model A|B, set order asc|desc|rot, uuid stream A|B|real), StaleOwned, "
                "CorruptOwned (an owned file overwritten with other bytes), CrlfOwned (owned files rewritten with CRLF line endings), StaleForeign, Fresh} up to the stated length, every Run through the real in-process entry point generator.__main__.main with the "
                "seams injected; state = digest of output+test directory (de-duplicated); after every Run the owned files must be byte-identical "
                "to the reference (fresh directory, fresh process, PYTHONHASHSEED=0), foreign files untouched, no injected uuid in any output "
                "byte; plus real CLI runs in new processes for further hash seeds and two reference runs compared with each other",
        "per_plugin": per, **tot,
        "set_constructs_not_intercepted_by_the_seam": [list(x) for x in sets],
        "exhaustive": True, "samples": samples,
    }
    res.assumptions = ["the generator reads nothing but its model files and its output/test directories",
                       "dotnet and testdata histories use small self-contained slices of the committed model so that a run is short (quick tier)"]
    return res


def _hist_class(h):
    if not h:
        return ""
    return ">".join(x.split("(")[0] for x in h)


def replay(ctx, doc):
    r = run(ctx)
    return "; ".join(v.what for v in r.violations.values() if v.site == doc.get("plugin"))[:600] or None
