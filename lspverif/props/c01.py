"""C01 - parse -> serialise loses nothing (DESIGN 3, C01)."""
from __future__ import annotations

from .. import impl
from ..explore import explore_roots, get_mm, structure_roundtrip, leaf_exc, localize
from ..mm import ref
from ..runner import Result, Violation

PROP = "C01"


def outcome(mm, name, j):
    """('ok'|'loss'|'raise', detail)"""
    try:
        o, u = structure_roundtrip(name, j)
    except Exception as e:  # noqa: BLE001 - any exception is the observation
        return "raise", leaf_exc(e), None
    if mm.nf_match(u, j, ref(name)):
        return "ok", None, u
    return "loss", None, u


def _violates(mm):
    def f(name, j):
        if impl.lsp().__dict__.get(name) is None:
            return False
        return outcome(mm, name, j)[0] != "ok"
    return f


def judge(mm, name, j, opts):
    kind, detail, u = outcome(mm, name, j)
    if kind == "ok":
        return 1, "ok", []
    out = []
    for site, node in localize(mm, name, j, _violates(mm)):
        sroot = site.split(".")[0]
        skind, sdetail, su = outcome(mm, sroot, node)
        if skind == "ok":       # cannot happen (localize only returns violating nodes)
            skind, sdetail, su, site, node, sroot = kind, detail, u, name, j, name
        extra = sdetail[0] if skind == "raise" else ""
        what = ("structure/unstructure of %s: %s" % (site, "raises %s: %s" % sdetail if skind == "raise"
                else "re-serialised JSON is not a normal form of the input (data lost, changed or null rule broken)"))
        out.append(Violation(PROP, skind, site, what,
                   {"engine": "VSE", "root": name, "input": j, "observed": su if skind == "loss" else list(sdetail),
                    "site_root": sroot, "site_input": node,
                    "expected": "unstructure(structure(j)) is a normal form of j under some strict reading"},
                   node=node, extra=extra))
    return 1, kind, out


def bounds(ctx):
    # (kmin, kmax) for structures / aliases+envelopes
    if ctx.thorough:
        return (4, 2), (4, 1)
    return (2, 1), (2, 1)


def run(ctx):
    mm = get_mm()
    res = Result()
    (ks_min, ks_max), (ke_min, ke_max) = bounds(ctx)
    lsp = impl.lsp()
    roots_s = [n for k, n in mm.roots(True, False, False)]
    roots_o = [n for k, n in mm.roots(False, True, True)]
    missing = [n for n in roots_s + roots_o if not hasattr(lsp, n)]
    for n in missing:
        res.add(Violation(PROP, "missing", n, "no definition named %s in lsprotocol.types" % n,
                          {"engine": "VSE", "root": n, "input": None}))
    roots_s = [n for n in roots_s if n not in missing]
    roots_o = [n for n in roots_o if n not in missing]
    opts = {"cap_s": 900 if ctx.thorough else 120, "max_base_n1_limit": 250}
    a1, v1 = explore_roots(ctx, judge, roots_s, ks_min, ks_max, opts)
    a2, v2 = explore_roots(ctx, judge, roots_o, ke_min, ke_max, opts)
    res.merge_violations(v1 + v2)
    capped = a1["capped"] + a2["capped"]
    res.coverage = {
        "states": a1["states"] + a2["states"],
        "transitions": a1["transitions"] + a2["transitions"],
        "traces_validated_against_impl": a1["evals"] + a2["evals"],
        "evaluations": a1["evals"] + a2["evals"],
        "distinct_nontrivial": a1["distinct_nt"] + a2["distinct_nt"],
        "rule": "every VSE derivation (deviation-bounded walk of the metamodel grammar) of every root, de-duplicated on "
                "(root, canonical JSON); non-trivial = cost >= 1 or from the maximal base",
        "roots": {"structures": len(roots_s), "aliases_and_envelopes": len(roots_o)},
        "bounds": {"structures": {"min_base_k": ks_min, "max_base_k": ks_max},
                   "aliases_envelopes": {"min_base_k": ke_min, "max_base_k": ke_max}},
        "outcome_classes": {k: a1["outcomes"].get(k, 0) + a2["outcomes"].get(k, 0)
                            for k in set(a1["outcomes"]) | set(a2["outcomes"])},
        "largest_root": list(max(a1["per_root_max"], a2["per_root_max"], key=lambda x: x[1])),
        "max_base_bound_reduced_to_1": [r[0] for r in a1["reduced"] + a2["reduced"]],
        "capped_roots": capped, "slowest_roots": a1["slowest"][:5] + a2["slowest"][:3],
        "exhaustive": not capped,
        "samples": a1["samples"] + a2["samples"][:2],
    }
    res.assumptions = [
        "MM (reference semantics of the metamodel) is the oracle; alphabets of DESIGN 2.2",
        "converters are compositional, so bounding deviations per root covers nested occurrences",
    ]
    return res


def replay(ctx, doc):
    mm = get_mm()
    name = doc.get("site_root") or doc["root"]
    j = doc.get("site_input") if "site_input" in doc else doc["input"]
    kind, detail, u = outcome(mm, name, j)
    if kind == "ok" and name != doc["root"]:
        kind, detail, u = outcome(mm, doc["root"], doc["input"])
    if kind == "ok":
        return None
    return "%s %s" % (kind, detail or u)
