"""C01 - parse -> serialise loses nothing (DESIGN 3, C01)."""
from __future__ import annotations

from .. import impl
from ..explore import explore_roots, get_mm, structure_roundtrip, leaf_exc, localize, root_class
from ..mm import ref
from ..runner import Result, Violation

PROP = "C01"


def outcome(mm, name, j):
    """('ok'|'loss'|'raise', detail)"""
    try:
        o, u = structure_roundtrip(name, j)
    except Exception as e:  # noqa: BLE001 - any exception is the observation
        return "raise", leaf_exc(e), None
    if mm.nf_match(u, j, ref(name)):
        return "ok", None, u
    return "loss", None, u


def _violates(mm, kind=None, detail=None):
    """Localisation predicate: the sub-value violates on its own *in the same way* as the whole did (a loss stays a
    loss, a raise keeps its exception class).  Without that, descending into an alias that cannot be a structuring
    root at all (a listed known finding) would re-label an unrelated loss as that known finding."""
    def f(name, j):
        if impl.lsp().__dict__.get(name) is None:
            return False
        k, d, _ = outcome(mm, name, j)
        if k == "ok":
            return False
        if kind is None:
            return True
        if k != kind:
            return False
        return kind != "raise" or detail is None or d[0] == detail[0]
    return f


def judge(mm, name, j, opts):
    kind, detail, u = outcome(mm, name, j)
    if kind == "ok":
        return 1, "ok", []
    out = []
    for site, node in localize(mm, name, j, _violates(mm, kind, detail)):
        sroot = site.split(".")[0]
        skind, sdetail, su = outcome(mm, sroot, node)
        if skind == "ok":       # cannot happen (localize only returns violating nodes)
            skind, sdetail, su, site, node, sroot = kind, detail, u, name, j, name
        extra = sdetail[0] if skind == "raise" else ""
        what = ("structure/unstructure of %s: %s" % (site, "raises %s: %s" % sdetail if skind == "raise"
                else "re-serialised JSON is not a normal form of the input (data lost, changed or null rule broken)"))
        out.append(Violation(PROP, skind, site, what,
                   {"engine": "VSE", "root": name, "input": j, "observed": su if skind == "loss" else list(sdetail),
                    "site_root": sroot, "site_input": node,
                    "expected": "unstructure(structure(j)) is a normal form of j under some strict reading"},
                   node=node, extra=extra))
    return 1, kind, out


_CORPUS = {}


def _corpus_task(args):
    i, n, jmod, jname = args
    import importlib
    judge = getattr(importlib.import_module(jmod), jname)       # noqa: F811 - the caller's judge
    mm = get_mm()
    names = sorted(_CORPUS["data"])[i::n]
    evals = 0
    vs = []
    outcomes = {}
    import json as _json
    for fname in names:
        cls = fname.split("-", 1)[0]
        if root_class_exists(cls) is False or cls not in mm.envelopes():
            continue
        j = _json.loads(_CORPUS["data"][fname])
        if not mm.valid(j, ref(cls), True):
            continue            # only values the reference model itself judges valid are C01's subject
        ne, oc, out = judge(mm, cls, j, {})
        evals += ne
        outcomes[oc] = outcomes.get(oc, 0) + 1
        for v in out:
            v.replay["source"] = "testdata vector " + fname
            vs.append(v)
    return evals, vs, outcomes


def root_class_exists(name):
    return impl.lsp().__dict__.get(name) is not None


def corpus_pass(ctx, judge_fn=None):
    """A second, independent input source: every vector the testdata plugin labels True (wider and more
    deeply nested messages than the deviation bound reaches), as far as MM agrees that it is valid."""
    import copy
    import logging
    import multiprocessing as mp
    from .. import docs
    logging.disable(logging.CRITICAL)
    try:
        model = impl.generator_module("generator.model")
        tg = impl.generator_module("generator.plugins.testdata.testdata_generator")
        data = tg.generate(model.create_lsp_model([copy.deepcopy(docs.committed())]), logging.getLogger("lspverif-testdata"))
    except Exception as e:  # noqa: BLE001 - the plugin is C17's subject, not C01's
        logging.disable(logging.NOTSET)
        return 0, [], {}, "testdata plugin unavailable: %r" % (e,)
    logging.disable(logging.NOTSET)
    _CORPUS["data"] = {k: v for k, v in data.items() if "-True-" in k}
    W = max(1, min(ctx.workers, 16))
    with mp.get_context("fork").Pool(W) as pool:
        jf = judge_fn or judge
        parts = pool.map(_corpus_task, [(i, W, jf.__module__, jf.__name__) for i in range(W)], chunksize=1)
    evals = 0
    vs = []
    outcomes = {}
    for e, v, oc in parts:
        evals += e
        vs += v
        for k, n in oc.items():
            outcomes[k] = outcomes.get(k, 0) + n
    return evals, vs, outcomes, None


def bounds(ctx):
    # (kmin, kmax) for structures / aliases+envelopes
    if ctx.thorough:
        return (4, 2), (4, 1)
    return (2, 1), (2, 1)


def _site_task(args):
    """Union-site shapes of C14 (every alternative in its minimal neighbourhood and its maximal form, heterogeneous and
    long arrays, other member orders, key-name strings) embedded in the owner roots and round-tripped."""
    idx, k = args
    from . import c14
    from ..vse import VSE
    from ..mm import is_null_type
    from ..explore import root_class
    mm = get_mm()
    vse = VSE(mm)
    ok, on, path, ort, via = c14.union_sites(mm)[idx]
    n = 0
    vs = []
    roots = [r for r in c14.roots_for_site(mm, ok, on, path) if root_class(r[0]) is not None and r[0] not in mm.aliases]
    for alt in ort["items"]:
        for slabel, v in ([("null", None)] if is_null_type(alt) else c14.shapes(mm, vse, alt, k, site_or=ort)):
            for rname, rt, rpath in roots:
                j = c14.embed(mm, vse, rt, rpath, v)
                if j is None or not mm.valid(j, rt, True):
                    continue
                ne, oc, out = judge(mm, rname, j, {})
                n += ne
                vs += out
    return n, vs


DEEP = 600         # nesting depth json.loads / json.dumps still handle; deeper than any recursive helper survives


MODERATE = 150     # a depth at which the whole round trip works on the tree as it is (see known finding K5)


def deep_values(depth):
    a = 1
    for _ in range(depth):
        a = [a]
    b = {"leaf": True}
    for _ in range(depth):
        b = {"n": b}
    return [("array-nest-%d" % depth, a), ("object-nest-%d" % depth, b)]


def deep_payload_pass(mm):
    """Very deep JSON at the positions where any JSON is valid (properties typed LSPAny / LSPObject / LSPArray): the
    value must come back unchanged.  Judged by plain equality (the reference model's recursive functions are not used
    on these values)."""
    from ..mm import ANY_ALIASES
    from ..vse import VSE
    from ..explore import root_class, jround
    vse = VSE(mm)
    conv = impl.converter()
    n = 0
    vs = []
    for sname in mm.structures:
        cls = root_class(sname)
        if cls is None:
            continue
        for p in mm.flatten(sname):
            t = p["type"]
            wrap = None
            if t["kind"] == "reference" and t["name"] in ANY_ALIASES:
                wrap = lambda v: v                                   # noqa: E731
            elif t["kind"] == "array" and t["element"]["kind"] == "reference" and t["element"]["name"] in ANY_ALIASES:
                wrap = lambda v: [v]                                 # noqa: E731
            if wrap is None:
                continue
            for label, v in deep_values(DEEP) + deep_values(MODERATE):
                if t.get("name") == "LSPObject" and not isinstance(v, dict) or t.get("name") == "LSPArray" and not isinstance(v, list):
                    continue
                j = vse.minimal(ref(sname))
                if not isinstance(j, dict):
                    continue
                j = dict(j)
                j[p["name"]] = wrap(v)
                n += 1
                site = "%s.%s" % (sname, p["name"])
                rp = {"engine": "VSE", "root": sname, "input": None, "deep": label, "property": p["name"]}
                try:
                    o = conv.structure(j, cls)
                except Exception as e:  # noqa: BLE001
                    vs.append(Violation(PROP, "deep-structure", site, "structure of %s with %s at %s raises %s: %s" % ((sname, label, p["name"]) + tuple(leaf_exc(e))), rp,
                                        extra=leaf_exc(e)[0]))
                    continue
                try:
                    u = jround(conv.unstructure(o, cls))
                except RecursionError:
                    vs.append(Violation(PROP, "deep-unstructure", site, "unstructure of %s with %s at %s raises RecursionError" % (sname, label, p["name"]), rp,
                                        extra="%s:RecursionError" % label))
                    continue
                except Exception as e:  # noqa: BLE001
                    vs.append(Violation(PROP, "deep-unstructure", site, "unstructure of %s with %s at %s raises %s: %s" % ((sname, label, p["name"]) + tuple(leaf_exc(e))), rp,
                                        extra="%s:%s" % (label, leaf_exc(e)[0])))
                    continue
                if u.get(p["name"]) != j[p["name"]]:
                    vs.append(Violation(PROP, "deep-roundtrip", site, "%s with %s at %s does not come back unchanged" % (sname, label, p["name"]), rp, extra=label))
    return n, vs


def run(ctx):
    mm = get_mm()
    res = Result()
    (ks_min, ks_max), (ke_min, ke_max) = bounds(ctx)
    lsp = impl.lsp()
    roots_s = [n for k, n in mm.roots(True, False, False)]
    roots_o = [n for k, n in mm.roots(False, True, True)]
    missing = [n for n in roots_s + roots_o if not hasattr(lsp, n)]
    for n in missing:
        res.add(Violation(PROP, "missing", n, "no definition named %s in lsprotocol.types" % n,
                          {"engine": "VSE", "root": n, "input": None}))
    roots_s = [n for n in roots_s if n not in missing]
    roots_o = [n for n in roots_o if n not in missing]
    opts = {"cap_s": 900 if ctx.thorough else 120, "max_base_n1_limit": 250}
    a1, v1 = explore_roots(ctx, judge, roots_s, ks_min, ks_max, opts)
    a2, v2 = explore_roots(ctx, judge, roots_o, ke_min, ke_max, opts)
    res.merge_violations(v1 + v2)
    c_evals, c_viols, c_outcomes, c_note = corpus_pass(ctx)
    res.merge_violations(c_viols)
    if c_note:
        res.notes.append(c_note)
    import multiprocessing as _mp
    from . import c14
    nsites = len(c14.union_sites(mm))
    with _mp.get_context("fork").Pool(ctx.workers) as pool:
        sparts = pool.map(_site_task, [(i, 2 if ctx.thorough else 1) for i in range(nsites)], chunksize=2)
    site_execs = sum(p[0] for p in sparts)
    for p in sparts:
        res.merge_violations(p[1])
    c_evals += site_execs
    deep_execs, deep_viols = deep_payload_pass(mm)
    res.merge_violations(deep_viols)
    c_evals += deep_execs
    capped = a1["capped"] + a2["capped"]
    res.coverage = {
        "states": a1["states"] + a2["states"],
        "transitions": a1["transitions"] + a2["transitions"],
        "traces_validated_against_impl": a1["evals"] + a2["evals"] + c_evals,
        "evaluations": a1["evals"] + a2["evals"] + c_evals,
        "testdata_true_vectors_round_tripped": c_evals - site_execs - deep_execs, "testdata_vector_outcomes": c_outcomes, "union_site_shape_executions": site_execs, "deep_payload_executions": deep_execs,
        "distinct_nontrivial": a1["distinct_nt"] + a2["distinct_nt"],
        "rule": "every VSE derivation (deviation-bounded walk of the metamodel grammar) of every root, de-duplicated on "
                "(root, canonical JSON); non-trivial = cost >= 1 or from the maximal base; plus every message the testdata plugin labels True and MM "
                "judges valid (a second, independently generated set of wide and deeply nested values); plus every union site x alternative x shape of C14 "
                "(maximal alternatives, heterogeneous and long arrays, other member orders) embedded in its owner roots",
        "roots": {"structures": len(roots_s), "aliases_and_envelopes": len(roots_o)},
        "bounds": {"structures": {"min_base_k": ks_min, "max_base_k": ks_max},
                   "aliases_envelopes": {"min_base_k": ke_min, "max_base_k": ke_max}},
        "outcome_classes": {k: a1["outcomes"].get(k, 0) + a2["outcomes"].get(k, 0)
                            for k in set(a1["outcomes"]) | set(a2["outcomes"])},
        "largest_root": list(max(a1["per_root_max"], a2["per_root_max"], key=lambda x: x[1])),
        "max_base_bound_reduced_to_1": [r[0] for r in a1["reduced"] + a2["reduced"]],
        "capped_roots": capped, "slowest_roots": a1["slowest"][:5] + a2["slowest"][:3],
        "exhaustive": not capped,
        "samples": a1["samples"] + a2["samples"][:2],
    }
    res.assumptions = [
        "MM (reference semantics of the metamodel) is the oracle; alphabets of DESIGN 2.2",
        "converters are compositional, so bounding deviations per root covers nested occurrences",
    ]
    return res


def replay(ctx, doc):
    mm = get_mm()
    name = doc.get("site_root") or doc["root"]
    j = doc.get("site_input") if "site_input" in doc else doc["input"]
    kind, detail, u = outcome(mm, name, j)
    if kind == "ok" and name != doc["root"]:
        kind, detail, u = outcome(mm, doc["root"], doc["input"])
    if kind == "ok":
        return None
    return "%s %s" % (kind, detail or u)
