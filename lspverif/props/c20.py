"""C20 - Position order is lexicographic and total; Range/Location equality is structural; repr."""
from __future__ import annotations

import itertools
import operator

from .. import impl
from ..runner import Result, Violation

PROP = "C20"
GRID = [0, 1, 2, 2**31 - 2, 2**31 - 1]
OPS = [("<", operator.lt), ("<=", operator.le), ("==", operator.eq), ("!=", operator.ne), (">", operator.gt), (">=", operator.ge)]
ORDER_OPS = [("<", operator.lt), ("<=", operator.le), (">", operator.gt), (">=", operator.ge)]


def p0_like(lsp):
    return lsp.Position(line=0, character=0)


def run(ctx):
    lsp = impl.lsp()
    res = Result()
    P, R, L = lsp.Position, lsp.Range, lsp.Location
    n = 0
    classes = {}

    def bad(kind, site, what, case):
        res.add(Violation(PROP, kind, site, what, {"engine": "GRID", "case": case, "input": None}))

    coords = [(a, b) for a in GRID for b in GRID]
    pos = {c: P(line=c[0], character=c[1]) for c in coords}
    # all ordered pairs x six operators against tuple comparison
    for a in coords:
        for b in coords:
            pa, pb = pos[a], P(line=b[0], character=b[1])      # distinct objects even when equal
            for name, op in OPS:
                n += 1
                want = op(a, b)
                try:
                    got = op(pa, pb)
                except Exception as e:  # noqa: BLE001
                    bad("position-op-raises", "Position" + name, "Position%r %s Position%r raises %r" % (a, name, b, e), [a, name, b])
                    continue
                classes[(name, want)] = classes.get((name, want), 0) + 1
                if got is not want:
                    bad("position-op", "Position" + name, "Position%r %s Position%r is %r, tuples give %r" % (a, name, b, got, want), [a, name, b])
            lt, eq, gt = pa < pb, pa == pb, pa > pb
            n += 1
            if [lt, eq, gt].count(True) != 1:
                bad("trichotomy", "Position", "not exactly one of <,==,> for %r,%r: %r" % (a, b, (lt, eq, gt)), [a, b])
            if eq and repr(pa) != repr(pb):
                bad("repr", "Position", "equal positions with different repr", [a, b])
    # transitivity on all triples (thorough) / on the 3-value sub-grid (quick)
    tri = coords if ctx.thorough else [(a, b) for a in GRID[:3] for b in GRID[:3]]
    for a, b, c in itertools.product(tri, repeat=3):
        n += 1
        if pos[a] < pos[b] and pos[b] < pos[c] and not pos[a] < pos[c]:
            bad("transitivity", "Position<", "a<b<c but not a<c for %r %r %r" % (a, b, c), [a, b, c])
        if pos[a] <= pos[b] and pos[b] <= pos[c] and not pos[a] <= pos[c]:
            bad("transitivity", "Position<=", "a<=b<=c but not a<=c for %r %r %r" % (a, b, c), [a, b, c])
    # repr
    for a in coords:
        n += 1
        if repr(pos[a]) != "%d:%d" % a:
            bad("repr", "Position", "repr(Position%r) = %r" % (a, repr(pos[a])), [a])
    # ranges over 5 representative positions, locations over 2 uris
    reps = [(0, 0), (0, 1), (1, 0), (2, 2**31 - 1), (2**31 - 1, 0)]
    ranges = [(s, e) for s in reps for e in reps]
    mk_r = lambda s, e: R(start=P(line=s[0], character=s[1]), end=P(line=e[0], character=e[1]))
    for x in ranges:
        for y in ranges:
            n += 1
            rx, ry = mk_r(*x), mk_r(*y)
            want = x == y
            if (rx == ry) is not want or (rx != ry) is want:
                bad("range-eq", "Range==", "Range%r == Range%r gives %r/%r, components say %r" % (x, y, rx == ry, rx != ry, want), [x, y])
        n += 1
        want_repr = "%d:%d-%d:%d" % (x[0] + x[1])
        if repr(mk_r(*x)) != want_repr:
            bad("repr", "Range", "repr(Range%r) = %r, expected %r" % (x, repr(mk_r(*x)), want_repr), [x])
    # uris that a "helpful" normalisation would identify (escape hex case, scheme case, trailing slash, fragment,
    # NFC/NFD, dot segments, empty): equality is structural, the strings differ, so the locations differ
    uris = ["file:///a", "file:///b"]
    near = ["file:///c%3A/x", "file:///c%3a/x", "file:///c:/x", "FILE:///a", "file:///A", "file:///a/", "file:///a#f", "file:///a?q",
            "file:///./a", "file:///\u00e9", "file:///e\u0301", "file://localhost/a", "", " file:///a", "file:///a "]
    locs = [(u, r) for u in uris for r in ranges]
    r00 = mk_r((0, 0), (0, 0))
    for u1 in uris[:1] + near:
        for u2 in uris[:1] + near:
            n += 1
            l1, l2 = L(uri=u1, range=mk_r((0, 0), (0, 0))), L(uri=u2, range=mk_r((0, 0), (0, 0)))
            want = u1 == u2
            if (l1 == l2) is not want or (l1 != l2) is want:
                bad("location-eq", "Location==", "Location(uri=%r) == Location(uri=%r) (same range) gives %r/%r, the uri strings are %s" % (
                    u1, u2, l1 == l2, l1 != l2, "equal" if want else "different"), [u1, u2])
            if repr(l1) != "%s:0:0-0:0" % u1:
                bad("repr", "Location", "repr(Location(uri=%r)) = %r" % (u1, repr(l1)), [u1])
    for x in locs:
        lx = L(uri=x[0], range=mk_r(*x[1]))
        for y in locs:
            n += 1
            ly = L(uri=y[0], range=mk_r(*y[1]))
            want = x == y
            if (lx == ly) is not want or (lx != ly) is want:
                bad("location-eq", "Location==", "Location%r == Location%r gives %r, components say %r" % (x, y, lx == ly, want), [x, y])
        n += 1
        want_repr = "%s:%d:%d-%d:%d" % ((x[0],) + x[1][0] + x[1][1])
        if repr(lx) != want_repr:
            bad("repr", "Location", "repr(Location%r) = %r, expected %r" % (x, repr(lx), want_repr), [x])
    # unrelated objects and cross pairs
    p0, r0, l0 = P(line=0, character=0), mk_r((0, 0), (0, 0)), L(uri="file:///a", range=mk_r((0, 0), (0, 0)))
    import types as _types
    # unrelated objects, including ones that merely look alike (same attribute names and equal values)
    others = [None, (0, 0), "0:0", 0, lsp.TextDocumentIdentifier(uri="file:///a"), object(),
              _types.SimpleNamespace(line=0, character=0), _types.SimpleNamespace(start=p0_like(lsp), end=p0_like(lsp)),
              _types.SimpleNamespace(uri="file:///a", range=mk_r((0, 0), (0, 0))),
              lsp.CallHierarchyItem(name="n", kind=lsp.SymbolKind.File, uri="file:///a", range=mk_r((0, 0), (0, 0)), selection_range=mk_r((0, 0), (0, 0))),
              lsp.SelectionRange(range=mk_r((0, 0), (0, 0)))]
    subjects = [("Position", p0), ("Range", r0), ("Location", l0)]
    pairs = []
    for sn, s in subjects:
        for o in others:
            pairs.append((sn, s, o))
        for on, o in subjects:
            if on != sn:
                pairs.append((sn, s, o))
    for sn, s, o in pairs:
        for a, b, side in ((s, o, "left"), (o, s, "right")):
            n += 1
            try:
                if (a == b) is not False or (a != b) is not True:
                    bad("unrelated-eq", sn, "%s compared (%s) with %r: == %r, != %r" % (sn, side, o, a == b, a != b), [sn, repr(o), side])
            except Exception as e:  # noqa: BLE001
                bad("unrelated-eq-raises", sn, "%s ==/!= %r raises %r" % (sn, o, e), [sn, repr(o), side])
            for name, op in ORDER_OPS:
                n += 1
                try:
                    r = op(a, b)
                except TypeError:
                    continue
                except Exception as e:  # noqa: BLE001
                    bad("unrelated-order-raises-other", sn, "%s %s %r raises %s, not TypeError" % (sn, name, o, type(e).__name__), [sn, name, repr(o), side])
                    continue
                bad("unrelated-order-returns", sn, "%s %s %r (%s) returns %r instead of raising TypeError" % (sn, name, o, side, r), [sn, name, repr(o), side])
    # ---- histories: compare, mutate a component, compare again (equality must follow the components)
    hist = 0
    mutable = True
    try:
        _probe = mk_r((0, 0), (0, 0))
        _probe.end = P(line=1, character=1)
        _probe.end.line = 2
    except Exception:  # noqa: BLE001 - frozen classes: there are no mutation histories to explore
        mutable = False
    for a in (reps[:3] if mutable else []):
        for b in reps[:3]:
            r1, r2 = mk_r(a, b), mk_r(a, b)
            steps = [("end", lambda r: setattr(r, "end", P(line=7, character=7))),
                     ("end.line", lambda r: setattr(r.end, "line", 9)),
                     ("start", lambda r: setattr(r, "start", P(line=3, character=3)))]
            _ = (r1 == r2, repr(r1))
            for label, mut in steps:
                mut(r1)
                hist += 1
                want = (r1.start.line, r1.start.character, r1.end.line, r1.end.character) == (r2.start.line, r2.start.character, r2.end.line, r2.end.character)
                if (r1 == r2) is not want or (r1 != r2) is want:
                    bad("range-eq-after-mutation", "Range==", "after mutating %s of a Range that had been compared before, == gives %r, components say %r" % (label, r1 == r2, want), [a, b, label])
                mut(r2)
                hist += 1
                if (r1 == r2) is not True:
                    bad("range-eq-after-mutation", "Range==", "two ranges mutated the same way (%s) compare unequal" % label, [a, b, label])
                want_repr = "%d:%d-%d:%d" % (r1.start.line, r1.start.character, r1.end.line, r1.end.character)
                if repr(r1) != want_repr:
                    bad("repr", "Range", "repr after mutation is %r, expected %r" % (repr(r1), want_repr), [a, b, label])
            l1, l2 = L(uri="file:///a", range=mk_r(a, b)), L(uri="file:///a", range=mk_r(a, b))
            _ = l1 == l2
            for label, mut in (("uri", lambda l: setattr(l, "uri", "file:///c")), ("range", lambda l: setattr(l, "range", mk_r((5, 5), (6, 6)))),
                               ("range.start.line", lambda l: setattr(l.range.start, "line", 4))):
                mut(l1)
                hist += 1
                if (l1 == l2) is not False:
                    bad("location-eq-after-mutation", "Location==", "after mutating %s of a Location that had been compared before it still equals the unmutated one" % label, [a, b, label])
                mut(l2)
                hist += 1
                if (l1 == l2) is not True:
                    bad("location-eq-after-mutation", "Location==", "two locations mutated the same way (%s) compare unequal" % label, [a, b, label])
            pa, pb = P(line=a[0], character=a[1]), P(line=a[0], character=a[1])
            _ = (pa == pb, pa < pb)
            pa.line = pa.line + 1
            hist += 1
            if not (pa > pb and pa != pb and not pa < pb):
                bad("position-after-mutation", "Position", "Position comparisons do not follow a mutated line", [a])
    n += hist
    res.coverage = {
        "states": len(coords) + len(ranges) + len(locs), "transitions": n,
        "traces_validated_against_impl": n, "evaluations": n, "distinct_nontrivial": len(coords) ** 2,
        "rule": "grid %s per coordinate: all 25 positions, all 625 ordered pairs x 6 operators vs tuple comparison, trichotomy, transitivity on "
                "%d triples, 25 ranges and 50 locations pairwise, unrelated/cross-class comparisons on both sides, reprs" % (GRID, len(tri) ** 3),
        "operator_outcome_classes": {"%s %s" % k: v for k, v in classes.items()}, "mutation_histories_explored": mutable,
        "exhaustive": True,
        "samples": [{"pair": [[0, 1], [1, 0]], "ops": {nm: bool(op(pos[(0, 1)], pos[(1, 0)])) for nm, op in OPS}}],
    }
    res.assumptions = ["decided on a 5-value boundary grid per coordinate (three distinct small values and the two largest), not on all uintegers"]
    return res


def replay(ctx, doc):
    r = run(ctx)
    return "; ".join(v.what for v in list(r.violations.values())[:3]) or None
