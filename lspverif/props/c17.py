"""C17 - every generated test vector is labelled with its true metamodel validity."""
from __future__ import annotations

import copy
import hashlib
import json
import logging
import multiprocessing as mp
import re

from .. import impl, docs
from ..mm import MM, ref, base, canon
from ..runner import Result, Violation

PROP = "C17"
NAME_RE = re.compile(r"^([A-Za-z0-9_]+)-(True|False)-([0-9A-Za-z_]+)\.json$")      # the statement says <hash>, no particular one

_G = {}


def strict_mm(doc):
    mm = MM(doc)
    mm.open_overrides = set()          # the vectors follow the metamodel, not the Python customisation
    env = mm.envelopes()
    # the plugin's response envelope may carry both result and error (lenient reading, DESIGN C17)
    err = {"name": "error", "optional": True, "type": {"kind": "literal", "value": {"properties": [
        {"name": "code", "type": base("integer")}, {"name": "message", "type": base("string")},
        {"name": "data", "type": ref("LSPAny"), "optional": True}]}}}
    for e in env.values():
        if e["role"] == "response":
            e["properties"] = e["properties"] + [err]
    return mm


def valid_message(mm, cls, j):
    e = mm.envelopes()[cls]
    if not isinstance(j, dict):
        return False
    return mm.valid(j, ref(cls), True)


def check_vectors(doc, data, lsp=None, conv=None, chunk=None):
    """data: {file name: content}.  Returns (violations as tuples, stats)."""
    mm = strict_mm(doc)
    env = mm.envelopes()
    msg_classes = {n for n, e in env.items() if e["role"] in ("request", "response", "notification")}
    bad = []
    stats = {"files": 0, "true": 0, "false": 0, "true_by_class": {}, "accepted": 0}
    names = sorted(data)
    if chunk is not None:
        names = names[chunk[0]::chunk[1]]
    for fname in names:
        content = data[fname]
        stats["files"] += 1
        m = NAME_RE.match(fname)
        if not m:
            bad.append(("file-name", "name", "vector file name %r does not match <MessageClass>-<True|False>-<hash>.json" % fname, fname, None))
            continue
        cls, label, h = m.groups()
        if hashlib.sha256(content.encode("utf-8")).hexdigest() == h:
            stats["name_is_sha256_of_content"] = stats.get("name_is_sha256_of_content", 0) + 1       # informational
        if cls not in msg_classes:
            bad.append(("unknown-class", cls, "vector %s names %s which is no request/response/notification class of the metamodel" % (fname, cls), fname, None))
            continue
        try:
            j = json.loads(content)
        except ValueError:
            bad.append(("not-json", cls, "vector %s is not JSON" % fname, fname, None))
            continue
        v = valid_message(mm, cls, j)
        if label == "True":
            stats["true"] += 1
            stats["true_by_class"][cls] = stats["true_by_class"].get(cls, 0) + 1
        else:
            stats["false"] += 1
        if str(v) != label:
            why = explain(mm, cls, j)
            bad.append(("label-%s-but-%s" % (label, "valid" if v else "invalid"), cls + ":" + why,
                        "vector %s is labelled %s but is %s under the strict metamodel reading (%s)" % (fname, label, "valid" if v else "invalid", why), fname, j))
        if label == "True" and v and conv is not None:
            pcls = getattr(lsp, cls, None)
            try:
                conv.structure(j, pcls)
                stats["accepted"] += 1
            except Exception as e:  # noqa: BLE001
                from ..explore import leaf_exc
                en, em = leaf_exc(e)
                bad.append(("true-vector-rejected", cls + ":" + en, "True vector %s is rejected by the Python converter: %s: %s" % (fname, en, em), fname, j))
    return bad, stats


def explain(mm, cls, j):
    """Coarse reason class for a label mismatch: the first property of the envelope whose value decides."""
    e = mm.envelopes()[cls]
    if not isinstance(j, dict):
        return "not-an-object"
    declared = {p["name"] for p in e["properties"]}
    for k in j:
        if k not in declared:
            return "undeclared:" + k
    for p in e["properties"]:
        n = p["name"]
        if n in j:
            if not mm.valid(j[n], p["type"], True):
                return "invalid:" + n
        elif not p.get("optional"):
            return "missing:" + n
    return "all-properties-valid"


def _chunk_task(args):
    i, n = args
    lsp = impl.lsp()
    conv = impl.converter()
    return check_vectors(_G["doc"], _G["data"], lsp, conv, (i, n))


def type_nodes(doc):
    """Distinct type expressions of the document (structures and aliases as references, every
    property type, params, results ...)."""
    mm = MM(doc)
    seen = {}
    for n in mm.structures:
        seen[canon(ref(n))] = ref(n)
    for n in mm.aliases:
        seen[canon(ref(n))] = ref(n)
    for n in mm.enums:
        seen[canon(ref(n))] = ref(n)
    for ok, on, path, t in mm.walk_types():
        if ok == "alias" and on in ("LSPAny", "LSPObject", "LSPArray"):
            # the plugin never uses the labels it computes inside these three aliases: generate_for_reference
            # replaces them by True (any JSON is a valid LSPAny); only the reference nodes are judged
            continue
        seen.setdefault(canon(t), t)
    return list(seen.values())


def _node_task(args):
    i, n, cap = args
    impl.setup_paths()
    logging.disable(logging.CRITICAL)
    model = impl.generator_module("generator.model")
    tg = impl.generator_module("generator.plugins.testdata.testdata_generator")
    doc = _G["doc"]
    mm = strict_mm(doc)
    spec = model.create_lsp_model([copy.deepcopy(doc)])
    nodes = type_nodes(doc)[i::n]
    bad = []
    pairs = 0
    capped = 0
    for t in nodes:
        mt = model.convert_to_lsp_type(**copy.deepcopy(t))
        k = 0
        for valid, value in tg.generate_for_type(mt, spec, []):
            if isinstance(value, tg.Ignore):
                continue
            k += 1
            if k > cap:
                capped += 1
                break
            pairs += 1
            j = json.loads(json.dumps(value))
            v = mm.valid(j, t, True)
            if v != bool(valid):
                label = t.get("name") or t["kind"]
                bad.append(("pair-label-%s-but-%s" % (valid, "valid" if v else "invalid"), label,
                            "generate_for_type(%s) yields (%s, %s) but the value is %s" % (canon(t)[:80], valid, canon(j)[:120], "valid" if v else "invalid"), canon(t)[:200], j))
    return bad, pairs, len(nodes), capped


def run(ctx):
    res = Result()
    impl.setup_paths()
    logging.disable(logging.CRITICAL)
    model = impl.generator_module("generator.model")
    tg = impl.generator_module("generator.plugins.testdata.testdata_generator")
    doc = docs.committed()
    _G["doc"] = doc
    spec = model.create_lsp_model([copy.deepcopy(doc)])
    log = logging.getLogger("lspverif-testdata")
    data = tg.generate(spec, log)
    _G["data"] = data
    impl.lsp()
    impl.converter()
    W = max(1, min(ctx.workers, 16))
    with mp.get_context("fork").Pool(W) as pool:
        parts = pool.map(_chunk_task, [(i, W) for i in range(W)], chunksize=1)
        cap = 200000 if ctx.thorough else 3000
        nparts = pool.map(_node_task, [(i, 4 * W, cap) for i in range(4 * W)], chunksize=1)
    logging.disable(logging.NOTSET)
    stats = {"files": 0, "true": 0, "false": 0, "accepted": 0}
    true_by_class = {}
    sample = None
    for bad, st in parts:
        for k in stats:
            stats[k] += st[k]
        for c, n in st["true_by_class"].items():
            true_by_class[c] = true_by_class.get(c, 0) + n
        for kind, site, what, fname, j in bad:
            res.add(Violation(PROP, kind, site, what, {"engine": "BISIM", "file": fname, "input": j}, node=j))
    mm = strict_mm(doc)
    classes = [n for n, e in mm.envelopes().items() if e["role"] in ("request", "response", "notification")]
    for c in classes:
        if not true_by_class.get(c):
            res.add(Violation(PROP, "no-true-vector", c, "message class %s receives no vector labelled True" % c, {"engine": "BISIM", "class": c, "input": None}))
    pairs = nodes = capped = 0
    for bad, p, n, c in nparts:
        pairs += p
        nodes += n
        capped += c
        for kind, site, what, tkey, j in bad:
            res.add(Violation(PROP, kind, site, what, {"engine": "BISIM", "type": tkey, "input": j}, node=j))
    # layer 3 (evolved model, second generate() in the same interpreter): a small slice, then the same slice evolved
    from .c16 import evolve_for_history
    small = docs.slice_model(doc, methods=("shutdown", "exit", "textDocument/didOpen", "textDocument/willSaveWaitUntil", "workspace/applyEdit", "textDocument/foldingRange"), names=())
    ev = evolve_for_history(small)
    logging.disable(logging.CRITICAL)
    try:
        tg.generate(model.create_lsp_model([copy.deepcopy(small)]), log)
        data2 = tg.generate(model.create_lsp_model([copy.deepcopy(ev)]), log)
        bad2, st2 = check_vectors(ev, data2)
        for kind, site, what, fname, j in bad2:
            res.add(Violation(PROP, kind, "second-run:" + site, "second generate() in one process, evolved model: " + what, {"engine": "BISIM", "file": fname, "input": j}, node=j))
        evolved_files = st2["files"]
    except Exception as e:  # noqa: BLE001
        res.add(Violation(PROP, "plugin", "testdata:second-run", "generate() fails on the evolved model in the second run: %s: %s" % (type(e).__name__, str(e)[:200]), {"engine": "BISIM", "input": None}))
        evolved_files = 0
    logging.disable(logging.NOTSET)
    first = sorted(data)[0]
    res.coverage = {
        "states": stats["files"] + nodes, "transitions": stats["files"] + pairs,
        "traces_validated_against_impl": stats["accepted"], "evaluations": stats["files"] + pairs,
        "distinct_nontrivial": stats["files"],
        "rule": "layer 1: every file the testdata plugin's generate() emits for the committed model (run in-process): name pattern, message "
                "class, label == strict validity under MM, >=1 True vector per message class, every True vector structured by the Python "
                "converter; layer 2: every (valid, value) pair of generate_for_type for every distinct type expression of the metamodel "
                "(cap %d pairs per node); layer 3: a second generate() in the same interpreter on an evolved slice, all its vectors judged" % cap,
        "vector_files": stats["files"], "labelled_true": stats["true"], "labelled_false": stats["false"],
        "true_vectors_accepted_by_converter": stats["accepted"], "message_classes": len(classes),
        "type_nodes": nodes, "pairs_judged": pairs, "type_nodes_capped": capped, "evolved_model_second_run_files": evolved_files,
        "exhaustive": capped == 0,
        "samples": [{"file": first, "content": json.loads(data[first])}],
    }
    res.assumptions = ["strict reading; property-less structures/literals are open objects; a response may carry result and error",
                       "open enumerations as flagged in the metamodel (without the Python CompletionItemKind customisation)"]
    return res


def replay(ctx, doc):
    d = docs.committed()
    mm = strict_mm(d)
    if doc.get("file"):
        m = NAME_RE.match(doc["file"])
        if m and doc.get("input") is not None:
            v = valid_message(mm, m.group(1), doc["input"])
            return None if str(v) == m.group(2) else "label %s but validity %s" % (m.group(2), v)
    r = run(ctx)
    return "; ".join(v.what for v in list(r.violations.values())[:2]) or None
