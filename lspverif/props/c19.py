"""C19 - converters are independent of creation order, count, configuration and threads."""
from __future__ import annotations

import itertools
import json
import multiprocessing as mp
import os
import sys
import time
import typing

import attrs

from .. import impl
from ..mm import MM, ref, canon
from ..vse import VSE
from ..runner import Result, Violation
from .. import sched as S

PROP = "C19"

# ---------------------------------------------------------------------------------------- battery

BATTERY_ROOTS = ["DefinitionResponse", "CompletionResponse", "HoverResponse", "InitializeResponse", "DocumentSymbolResponse",
                 "CodeActionResponse", "WorkspaceEdit", "Position", "Location", "SelectionRange", "ProgressNotification",
                 "DidChangeTextDocumentNotification", "SemanticTokensDeltaResponse", "InlayHint", "ParameterInformation"]


def make_battery(limit_per_root=7):
    mm = MM.load(impl.MODEL_PATH)
    vse = VSE(mm)
    out = []
    for r in BATTERY_ROOTS:
        if r not in mm.structures and r not in mm.envelopes():
            continue
        seen = set()
        n = 0
        for c, j in vse.enum(ref(r), 1):
            k = canon(j)
            if k in seen:
                continue
            seen.add(k)
            out.append((r, j))
            n += 1
            if n >= limit_per_root:
                break
    # union-heavy samples whose hooks have to choose an alternative by looking into the value
    loc = {"uri": "file:///a"}
    out.append(("WorkspaceSymbolResponse", {"id": 1, "jsonrpc": "2.0", "result": [{"name": "n", "kind": 1, "location": loc}]}))
    out.append(("WorkspaceSymbolResponse", {"id": 1, "jsonrpc": "2.0", "result": [{"name": "n", "kind": 1, "location": {"uri": "file:///a", "range": {"start": {"line": 0, "character": 0}, "end": {"line": 0, "character": 1}}}}, {"name": "m", "kind": 2, "location": loc, "data": 1}]}))
    out.append(("CodeActionResponse", {"id": 1, "jsonrpc": "2.0", "result": [{"title": "t", "command": {"title": "t", "command": "c"}}, {"title": "t", "command": "c"}]}))
    out.append(("ServerCapabilities", {"monikerProvider": {"documentSelector": None}, "textDocumentSync": 1, "hoverProvider": {"workDoneProgress": True}}))
    out.append(("Hover", {"contents": ["doc", {"language": "python", "value": "x"}]}))
    # the bases of the user subclasses observed first by observe(): once these went through a converter, a later
    # subclass must still get what the first one got
    out.append(("InitializeParams", {"processId": None, "rootUri": None, "capabilities": {}}))
    out.append(("Position", {"line": 3, "character": 4}))
    # unknown properties (ignored by every converter except one the user built with forbid_extra_keys=True)
    out.append(("Position", {"line": 1, "character": 2, "zzExtra": 1}))
    out.append(("Hover", {"contents": "doc", "range": {"start": {"line": 0, "character": 0, "zz": None}, "end": {"line": 0, "character": 1}}, "zzExtra": {"a": 1}}))
    out.append(("DefinitionResponse", {"id": 1, "jsonrpc": "2.0", "zzExtra": 1, "result": {"uri": "file:///a", "zz": 1, "range": {"start": {"line": 0, "character": 0}, "end": {"line": 1, "character": 2}}}}))
    # invalid inputs (must raise on every converter)
    out.append(("Position", {"line": -1, "character": 0}))
    out.append(("Position", {"line": 0}))
    out.append(("Location", {"uri": "file:///a"}))
    out.append(("DefinitionResponse", {"id": 1, "jsonrpc": "2.0", "result": {"uri": "file:///a", "range": {"start": {"line": 0, "character": 0}, "end": {"line": 1, "character": 2}}}}))
    out.append(("DefinitionResponse", {"id": 1, "jsonrpc": "2.0", "result": [{"uri": "file:///a", "range": {"start": {"line": 0, "character": 0}, "end": {"line": 1, "character": 2}}}]}))
    out.append(("Location", {"uri": "file:///a", "range": {"start": {"line": 0, "character": 0}, "end": {"line": 1, "character": 2}}}))
    return out


_SUBCLASSES = {}


def _user_subclasses(lsp):
    """Application-defined attrs subclasses of package classes (pygls-style extension).  Observed FIRST, before any
    package class has been through the converter: what a subclass gets must not depend on whether its base was used."""
    # fresh classes on every call: a subclass defined after its base has been through a converter must get what a
    # subclass defined before would get (state remembered on a base class must not leak into later subclasses)
    @attrs.define
    class VerifProjectInitializeParams(lsp.InitializeParams):
        project: typing.Optional[str] = attrs.field(default=None)

    @attrs.define
    class VerifPosition(lsp.Position):
        note: typing.Optional[str] = attrs.field(default=None)
    return VerifProjectInitializeParams, VerifPosition


def observe(conv, battery, lsp):
    obs = []
    try:
        sub_init, sub_pos = _user_subclasses(lsp)
        o1 = sub_init(capabilities=lsp.ClientCapabilities(), project="p")
        obs.append("subclass " + json.dumps(conv.unstructure(o1), sort_keys=True, default=lambda x: getattr(x, "value", repr(x))))
        o2 = conv.structure({"line": 1, "character": 2, "note": "n"}, sub_pos)
        obs.append("subclass %s %r %r" % (type(o2).__name__, getattr(o2, "note", "<lost>"), conv.unstructure(o2)))
        o3 = conv.structure({"capabilities": {}, "processId": None, "rootUri": None, "project": "q"}, sub_init)
        obs.append("subclass %s %r" % (type(o3).__name__, getattr(o3, "project", "<lost>")))
    except Exception as e:  # noqa: BLE001
        obs.append("subclass raises %s" % type(e).__name__)
    for r, j in battery:
        cls = getattr(lsp, r)
        try:
            o = conv.structure(j, cls)
            u = conv.unstructure(o, cls)
            # both halves of "same structuring and unstructuring results": the object graph (attrs repr shows
            # classes, tuples vs lists, enum members) and the JSON
            obs.append(repr(o) + " => " + json.dumps(u, sort_keys=True, default=lambda x: getattr(x, "value", repr(x))))
        except Exception:  # noqa: BLE001
            obs.append("raises")
    # constructor-built objects
    try:
        p = lsp.Position(line=1, character=2)
        rng = lsp.Range(start=p, end=lsp.Position(line=3, character=4))
        objs = [p, rng, lsp.Location(uri="file:///x", range=rng),
                lsp.TextDocumentRegistrationOptions(document_selector=None),
                lsp.ProgressNotification(params=lsp.ProgressParams(token="t", value={"kind": "end"}))]
        for o in objs:
            obs.append(json.dumps(conv.unstructure(o), sort_keys=True, default=lambda x: getattr(x, "value", repr(x))))
    except Exception as e:  # noqa: BLE001
        obs.append("construct/unstructure raises %s" % type(e).__name__)
    return obs


# ---------------------------------------------------------------------------------------- schedules

class Harness:
    """One per worker process.  The package is imported freshly and get_converter is NEVER called in this
    process: the reference and every execution run in a child forked from this pristine import-time state,
    so that no knowledge of the implementation's once-flags, caches or private names is needed to 'reset'."""

    def __init__(self, registry_mode):
        impl.setup_paths()
        for n in [n for n in sys.modules if n == "lsprotocol" or n.startswith("lsprotocol.")]:
            del sys.modules[n]          # not pristine (somebody imported and perhaps used it): import again
        self.sched_ref = [None]
        self.locks = []
        S.install_lock_factory(os.path.join(impl.PY_PKG, "lsprotocol"), self.sched_ref, self.locks)
        import lsprotocol.types as lsp
        from lsprotocol import converters
        self.lsp, self.converters = lsp, converters
        self.reg = lsp.ALL_TYPES_MAP
        self.full = dict(self.reg)
        # the unresolved annotations of every attrs class (for the closure computation only)
        self.orig = {}
        for n, c in self.full.items():
            if isinstance(c, type) and attrs.has(c):
                self.orig[n] = [(a, a.type) for a in attrs.fields(c)]
        pkg, files = S.package_files()
        self.pkg = pkg
        self.files = set(files)
        self.local_ranges = {}
        self.audit = {}
        for f in files:
            loc = S.converter_local_functions(f)
            self.audit[os.path.basename(f)] = {k: (v[0], v[1]) for k, v in loc.items()}
            self.local_ranges[f] = [(v[2], v[3]) for v in loc.values() if v[0]]
        # the generated module: only functions that write module-level state are scheduled
        self.types_file = os.path.realpath(os.path.join(pkg, "types.py"))
        writers = S.state_writing_functions(self.types_file)
        self.local_ranges_types = [(a, b) for a, b, _, _ in writers]
        self.audit["types.py"] = {"state_writing_functions": [[nm, why] for _, _, nm, why in writers]}
        self.mods = [m for n, m in sys.modules.items() if n.startswith("lsprotocol.") and not n.endswith(".types")]
        self.battery = [b for b in make_battery(3) if b[0] in ("SelectionRange", "Position", "Location", "DefinitionResponse")]
        # values that go through hooks whose *registration* reads resolved field types
        self.battery += [
            ("NotebookCellTextDocumentFilter", {"notebook": "jupyter"}),
            ("NotebookCellTextDocumentFilter", {"notebook": {"notebookType": "jupyter-notebook"}, "language": "python"}),
            ("TextDocumentRegistrationOptions", {"documentSelector": [{"notebook": {"scheme": "file"}, "language": "python"}, {"language": "rust"}]}),
            ("NotebookDocumentSyncOptions", {"notebookSelector": [{"notebook": {"notebookType": "n"}, "cells": [{"language": "python"}]}]}),
        ]
        if registry_mode != "reduced":
            self.battery += make_battery(2)
        self.mode = registry_mode
        if registry_mode == "reduced":
            # closure under annotation references of: a recursive class; the class whose resolved field type
            # is read while hooks are registered; a class whose annotation nests forward references inside
            # a union that needs a registered hook (unresolved, the hook lookup by type equality fails)
            # ... and every class the battery parses (in a pristine process nothing outside the registry is resolved)
            seeds = ["SelectionRange", "NotebookCellTextDocumentFilter", "NotebookDocumentSyncOptions"]
            seeds += [b[0] for b in self.battery if b[0] not in seeds]
            self.names = self.closure(seeds) + ["LSPAny"]
        else:
            self.names = [n for n in self.full if n != "__builtins__"]
        self._cache = {}
        # (locks the package got from somewhere else than threading.Lock()/RLock() calls of its own code)
        for m in self.mods:
            for k, v in list(m.__dict__.items()):
                if isinstance(v, S._LOCK_TYPES):
                    cl = S.CoopLock(self.sched_ref, isinstance(v, S._LOCK_TYPES[1]), "%s.%s" % (m.__name__, k))
                    m.__dict__[k] = cl
                    self.locks.append(cl)
        # one full sequential creation (in a child): resolves everything, gives the reference observation
        st, r = _in_child(self._reference_exec)
        if st != "ok":
            raise RuntimeError("reference execution failed: %s" % (r,))
        self.reference = r

    def closure(self, seeds):
        import re as _re
        import typing as _t
        done, todo = [], list(seeds)

        def names_in(t, acc, depth=0):
            if depth > 8:
                return
            if isinstance(t, str):
                acc.update(_re.findall(r"[A-Za-z_][A-Za-z0-9_]*", t))
            elif isinstance(t, _t.ForwardRef):
                acc.update(_re.findall(r"[A-Za-z_][A-Za-z0-9_]*", t.__forward_arg__))
            elif isinstance(t, type):
                acc.add(t.__name__)
            else:
                for a in _t.get_args(t) or ():
                    names_in(a, acc, depth + 1)
        while todo:
            n = todo.pop(0)
            if n in done or n not in self.full:
                continue
            done.append(n)
            acc = set()
            obj = self.full[n]
            if n in self.orig:
                for a, t in self.orig[n]:
                    names_in(t, acc)
            else:
                names_in(obj, acc)
            for m in sorted(acc):
                if m in self.full and m not in done:
                    todo.append(m)
        return done

    def is_point(self, code):
        r = self._cache.get(code)
        if r is not None:
            return r if r != 0 else None
        fn = code.co_filename
        try:
            real = os.path.realpath(fn)
        except Exception:  # noqa: BLE001
            real = fn
        if real in self.files:
            line = code.co_firstlineno
            local = any(a <= line <= b for a, b in self.local_ranges.get(real, ()))
            r = 0 if local else True
        elif real == self.types_file and self.local_ranges_types:
            line = code.co_firstlineno
            r = True if any(a <= line <= b for a, b in self.local_ranges_types) else 0
        else:
            r = 0
        self._cache[code] = r
        return r if r != 0 else None

    def body(self):
        c = self.converters.get_converter()
        return observe(c, self.battery, self.lsp)

    def _reference_exec(self):
        return self.body()

    def _exec(self, n, prefix):
        """In a forked child: first use of the package in this process, under the given schedule."""
        self.reg.clear()
        for name in self.names:
            self.reg[name] = self.full[name]
        s = S.Sched(n, prefix, self.is_point)
        self.sched_ref[0] = s
        s.run([self.body] * n)
        return {"points": [tuple(p) for p in s.points], "trace": list(s.trace), "results": s.results, "errors": s.errors,
                "deadlock": s.deadlock, "hang": s.hang, "n": n}

    def run_once(self, n, prefix):
        import types as _types
        st, r = _in_child(self._exec, n, list(prefix))
        if st != "ok":
            r = {"points": [], "trace": [], "results": [None] * n, "errors": [("HarnessChild", str(r)[:160], None)] * n, "deadlock": False, "hang": False, "n": n}
        return _types.SimpleNamespace(**r)


class _LostControl(Exception):
    pass


def _sched_worker(args):
    mode, n, bound, wid, W, cap = args
    h = Harness(mode)
    t0 = time.time()
    out = {"mode": mode, "n": n, "bound": bound, "executions": 0, "points_root": 0, "bad": {}, "outcomes": {}, "max_points": 0,
           "transitions": 0, "audit": h.audit, "determinism": True, "locks": [l.name for l in h.locks]}
    # determinism: the same schedule twice gives identical observations
    s1 = h.run_once(n, [])
    s2 = h.run_once(n, [])
    if s1.hang or s2.hang:
        out["lost_control"] = {"schedule": [], "after_points": len(s1.points)}
        out["bad"] = []
        return out
    if [p[:3] for p in s1.points] != [p[:3] for p in s2.points] or s1.results != s2.results or s1.errors != s2.errors:
        out["determinism"] = False
        return out
    out["points_root"] = len(s1.points)

    def on_exec(s, prefix):
        if s.hang:
            # the scheduler lost control: a thread blocks in a primitive SCHED does not own (an Event, a Condition,
            # a lock created outside the package ...).  That is a limit of the harness, not a verdict on the code.
            out["lost_control"] = {"schedule": list(s.trace), "after_points": len(s.points)}
            raise _LostControl()
        out["executions"] += 1
        out["transitions"] += len(s.points)
        out["max_points"] = max(out["max_points"], len(s.points))
        key = None
        if s.deadlock or any(e == "Deadlock" for e in s.errors):
            key = ("deadlock", "", "")
        else:
            for i in range(n):
                if s.errors[i]:
                    e = s.errors[i]
                    key = ("raises", e[0] if isinstance(e, tuple) else str(e), str(e[2]) if isinstance(e, tuple) else "")
                    break
                if s.results[i] != h.reference:
                    key = ("wrong-result", "thread %d" % i, "")
                    break
        oc = "ok" if key is None else key[0] + ":" + key[1]
        out["outcomes"][oc] = out["outcomes"].get(oc, 0) + 1
        if key is not None and key not in out["bad"]:
            # the deciding preemption: last non-zero choice
            last = max([i for i, c in enumerate(s.trace) if c], default=None)
            where = s.points[last][:2] if last is not None else None
            out["bad"][key] = {"schedule": list(s.trace[: (last + 1) if last is not None else 0]), "threads": n, "registry": mode,
                               "errors": [list(e) if isinstance(e, tuple) else e for e in s.errors], "preempted_at": where,
                               "count": 0}
        if key is not None:
            out["bad"][key]["count"] += 1

    out["completed_bound"] = -1
    deadline = t0 + cap
    try:
        for b in range(0, bound + 1):
            S.explore(n, b, lambda p: h.run_once(n, p), on_exec, first_level_filter=(lambda i: i % W == wid), deadline=deadline, exact=True)
            out["completed_bound"] = b
    except _LostControl:
        pass
    except S.Capped:
        out["capped_after_s"] = cap
    out["wall"] = time.time() - t0
    out["bad"] = [(list(k), v) for k, v in out["bad"].items()]
    return out


# ---------------------------------------------------------------------------------------- histories

EVENTS = ["F", "U", "Ud", "Uf", "Uo", "R0", "Rl", "H0", "Hl", "D0", "Dl", "X"]


def _user_hooks(lsp, marker="file:///USER-HOOK"):
    def st_hook(o, t):
        return lsp.Location(uri=marker, range=lsp.Range(start=lsp.Position(line=0, character=0), end=lsp.Position(line=0, character=0)))

    def un_hook(o):
        return "USER-RANGE " + repr(o)
    return st_hook, un_hook


def _history_child(hist, battery_spec):
    """Runs in a freshly forked child: nothing has called get_converter in this process yet."""
    import gc
    impl.setup_paths()
    import cattrs
    import lsprotocol.types as lsp
    from lsprotocol import converters
    battery = battery_spec
    convs = []          # dropped converters leave None behind (indexes stay stable)
    kinds = []          # "plain" | "forbid"
    hooked = set()
    problems = []
    st_hook, un_hook = _user_hooks(lsp)

    def alive():
        return [i for i, c in enumerate(convs) if c is not None]

    for step, ev in enumerate(hist):
        try:
            if ev == "F":
                convs.append(converters.get_converter())
                kinds.append("plain")
            elif ev == "U":
                convs.append(converters.get_converter(cattrs.Converter()))
                kinds.append("plain")
            elif ev == "Ud":
                convs.append(converters.get_converter(cattrs.Converter(detailed_validation=False)))
                kinds.append("plain")
            elif ev == "Uf":
                convs.append(converters.get_converter(cattrs.Converter(forbid_extra_keys=True)))
                kinds.append("forbid")
            elif ev == "Uo":
                # omit_if_default=True on the supplied converter: the package pins omit_if_default per attribute, so the
                # wire format (always-written properties included) is the same as for any other converter
                convs.append(converters.get_converter(cattrs.Converter(omit_if_default=True)))
                kinds.append("plain")
            elif ev == "X":
                # a creation that is interrupted (Ctrl-C, RecursionError ...) while forward references are being resolved:
                # the 5th call of attrs.resolve_types raises; whatever the package did so far must not poison later creations
                import attrs as _attrs
                orig_rt = _attrs.resolve_types
                calls = [0]

                class _Interrupt(BaseException):
                    pass

                def faulty(*a, **k):
                    calls[0] += 1
                    if calls[0] == 5:
                        raise _Interrupt()
                    return orig_rt(*a, **k)
                _attrs.resolve_types = faulty
                try:
                    converters.get_converter()
                except _Interrupt:
                    pass
                finally:
                    _attrs.resolve_types = orig_rt
            elif ev in ("R0", "Rl", "H0", "Hl", "D0", "Dl"):
                al = alive()
                if not al:
                    continue
                i = al[0] if ev[1] == "0" else al[-1]
                if ev[0] == "R":
                    r = converters.get_converter(convs[i])
                    if r is not convs[i]:
                        problems.append((step, ev, "get_converter(c) returned a different converter object"))
                elif ev[0] == "H":
                    convs[i].register_structure_hook(lsp.Location, st_hook)
                    convs[i].register_unstructure_hook(lsp.Range, un_hook)
                    hooked.add(i)
                else:
                    convs[i] = None
                    gc.collect()
        except Exception as e:  # noqa: BLE001
            problems.append((step, ev, "creation raised %s: %s" % (type(e).__name__, str(e)[:100])))
            break
        for i, c in enumerate(convs):
            if c is None:
                continue
            obs = observe(c, battery["values"], lsp)
            want = battery["references"][(kinds[i], i in hooked)]
            if obs != want:
                idx = [k for k, (a, b) in enumerate(zip(obs, want)) if a != b][:3]
                problems.append((step, ev, "converter %d (%s%s) differs from the %s observation at battery items %s: got %s" % (
                    i, "user-hooked" if i in hooked else "plain", ", forbid_extra_keys" if kinds[i] == "forbid" else "",
                    "hooked reference" if i in hooked else "reference", idx, [obs[k][:80] for k in idx])))
                break
        if problems:
            break
    return problems


def _reference_child(values, kind, hooked):
    """One converter of the given kind alone in a fresh process (optionally with the user hooks)."""
    impl.setup_paths()
    import cattrs
    import lsprotocol.types as lsp
    from lsprotocol import converters
    c = converters.get_converter(cattrs.Converter(forbid_extra_keys=True)) if kind == "forbid" else converters.get_converter()
    if hooked:
        st_hook, un_hook = _user_hooks(lsp)
        c.register_structure_hook(lsp.Location, st_hook)
        c.register_unstructure_hook(lsp.Range, un_hook)
    return observe(c, values, lsp)


def _in_child(fn, *args):
    """Run fn(*args) in a freshly forked child (os.fork: usable from pool workers) -> (status, result)."""
    import pickle
    r, w = os.pipe()
    pid = os.fork()
    if pid == 0:
        code = 0
        try:
            os.close(r)
            try:
                payload = ("ok", fn(*args))
            except BaseException as e:  # noqa: BLE001
                payload = ("err", "%s: %s" % (type(e).__name__, e))
            with os.fdopen(w, "wb") as f:
                pickle.dump(payload, f)
        except BaseException:  # noqa: BLE001
            code = 1
        finally:
            os._exit(code)
    os.close(w)
    with os.fdopen(r, "rb") as f:
        data = f.read()
    os.waitpid(pid, 0)
    try:
        return pickle.loads(data)
    except Exception:  # noqa: BLE001
        return ("err", "child died without a result")


def _hist_worker(args):
    hists, battery = args
    out = []
    for h in hists:
        st, res = _in_child(_history_child, h, battery)
        out.append((h, st, res))
    return out


def enabled_histories(maxlen):
    out = []

    def rec(h, nconv):
        if h:
            out.append(list(h))
        if len(h) == maxlen:
            return
        for ev in EVENTS:
            if ev in ("F", "U", "Ud", "Uf", "Uo"):
                rec(h + [ev], nconv + 1)
            elif ev == "X":
                if "X" not in h:
                    rec(h + [ev], nconv)
            elif nconv >= 1:
                if ev in ("Rl", "Hl", "Dl") and nconv == 1:
                    continue       # same as R0 / H0 / D0 when there is one converter
                rec(h + [ev], nconv - 1 if ev[0] == "D" else nconv)
    rec([], 0)
    return out


def run(ctx):
    res = Result()
    impl.setup_paths()
    assert "lsprotocol.converters" not in sys.modules or True
    W = max(1, min(ctx.workers, 16))
    # ---------------- schedules
    if ctx.thorough:
        configs = [("reduced", 2, 3), ("reduced", 3, 2), ("full", 2, 1)]
    else:
        configs = [("reduced", 2, 2), ("reduced", 3, 1)]
    tasks = []
    cap = int(os.environ.get("LSPVERIF_C19_CAP", "900" if ctx.thorough else "150"))     # wall clock per work slice
    for mode, n, bound in configs:
        for wid in range(W):
            tasks.append((mode, n, bound, wid, W, cap))
    with mp.get_context("fork").Pool(W, maxtasksperchild=1) as pool:
        parts = pool.map(_sched_worker, tasks, chunksize=1)
    sched_cov = {}
    lost = []
    capped = []
    capped_keys = {}
    total_exec = total_trans = 0
    audit = None
    for part in parts:
        key = "%s registry, %d threads, preemption bound %d" % (part["mode"], part["n"], part["bound"])
        c = sched_cov.setdefault(key, {"executions": 0, "scheduling_points_default_schedule": part["points_root"], "outcomes": {}, "max_points": 0})
        if not part["determinism"]:
            res.add(Violation(PROP, "harness-nondeterministic", "SCHED", "replaying the same schedule twice gave different observations (%s)" % key,
                              {"engine": "SCHED", "input": None}))
            continue
        # the root execution is run by every worker: count it once
        c["completed_bound"] = min(c.get("completed_bound", part["bound"]), part.get("completed_bound", -1))
        if part.get("capped_after_s"):
            capped_keys[key] = part["capped_after_s"]
        if part.get("lost_control"):
            c["scheduler_lost_control"] = part["lost_control"]
            lost.append(key)
        c["executions"] += part["executions"] - 1
        c["max_points"] = max(c["max_points"], part["max_points"])
        for oc, n in part["outcomes"].items():
            c["outcomes"][oc] = c["outcomes"].get(oc, 0) + n
        total_trans += part["transitions"]
        audit = part["audit"]
        c["cooperative_locks"] = part["locks"]
        for k, v in part["bad"]:
            kind, a, b = k
            res.add(Violation(PROP, "schedule-" + kind, "get_converter", "concurrent first calls (%s): %s %s %s; deciding preemption at %s" % (key, kind, a, b, v["preempted_at"]),
                              {"engine": "SCHED", "schedule": v["schedule"], "threads": v["threads"], "registry": v["registry"], "errors": v["errors"], "input": None},
                              node=v["schedule"], extra="%s:%s" % (a, b)))
    for key, secs in capped_keys.items():
        cb = sched_cov[key]["completed_bound"]
        capped.append("%s: wall-clock cap of %ds per work slice hit; every schedule with at most %d preemptions explored, bound %d partially" % (key, secs, cb, cb + 1))
    for key, c in sched_cov.items():
        c["executions"] += 1
        nok = c["outcomes"].get("ok", 0)
        total_exec += c["executions"]
    # ---------------- histories
    values = make_battery(5)
    refs = {}
    st, r = "ok", None
    for kind in ("plain", "forbid"):
        for hk in (False, True):
            st, r = _in_child(_reference_child, values, kind, hk)
            if st != "ok":
                break
            refs[(kind, hk)] = r
        if st != "ok":
            break
    hist_stats = {"histories": 0, "max_length": 0, "battery_items": len(values)}
    if st != "ok":
        res.add(Violation(PROP, "reference-fails", "get_converter", "a single sequential get_converter() + battery fails: %s" % r, {"engine": "HIST", "input": None}))
    else:
        if refs[("plain", False)] == refs[("plain", True)]:
            res.add(Violation(PROP, "selfcheck", "HIST", "the user hook is not visible in the battery (vacuous H events)", {"engine": "HIST", "input": None}))
        if refs[("plain", False)] == refs[("forbid", False)]:
            res.add(Violation(PROP, "selfcheck", "HIST", "forbid_extra_keys is not visible in the battery (vacuous Uf events)", {"engine": "HIST", "input": None}))
        battery = {"values": values, "references": refs}
        maxlen = 4 if ctx.thorough else 3
        hists = enabled_histories(maxlen)
        hists.append(["F"] * 100)
        # converters that are dropped and collected while new ones are created (address reuse)
        hists.append(["U", "D0"] * 30 + ["U"])
        hists.append(["Ud", "D0", "U", "Dl", "F", "D0"] * 8 + ["Ud"])
        hists.append(["F", "U", "Dl"] * 20 + ["U"])
        hist_stats["histories"] = len(hists)
        hist_stats["max_length"] = maxlen
        chunks = [hists[i::W] for i in range(W)]
        with mp.get_context("fork").Pool(W) as pool:
            outs = pool.map(_hist_worker, [(c, battery) for c in chunks], chunksize=1)
        classes = {}
        for part in outs:
            for h, st, problems in part:
                if st != "ok":
                    res.add(Violation(PROP, "history-child-fails", "get_converter", "history %s: %s" % (h[:6], problems), {"engine": "HIST", "history": h[:10], "input": None}))
                    continue
                classes["ok" if not problems else "violates"] = classes.get("ok" if not problems else "violates", 0) + 1
                for step, ev, what in problems:
                    hs = h if len(h) <= 6 else h[:3] + ["...x%d" % len(h)]
                    res.add(Violation(PROP, "history", "get_converter", "creation history %s, after event %d (%s): %s" % (hs, step, ev, what),
                                      {"engine": "HIST", "history": list(h), "step": step, "input": None},
                                      node=h[:10], extra="%s@%s" % (ev, what.split(" differs")[0].split(":")[0][:40])))
        hist_stats["outcome_classes"] = classes
    res.coverage = {
        "states": total_exec + hist_stats["histories"], "transitions": total_trans + hist_stats["histories"],
        "traces_validated_against_impl": total_exec + hist_stats["histories"], "evaluations": total_exec + hist_stats["histories"],
        "distinct_nontrivial": total_exec + hist_stats["histories"] - len(sched_cov),
        "rule": "schedules: N real threads each doing get_converter()+battery as first use, cooperative scheduler on settrace line events of the "
                "package modules (functions audited as converter-local run atomically), every schedule with at most the stated number of "
                "preemptions (iterative context bounding); histories: every enabled sequence over {F fresh, U user converter, Ud user converter "
                "without detailed validation, Uf user converter with forbid_extra_keys, Uo user converter with omit_if_default, R re-register on first/last, H user structure hook for Location + "
                "unstructure hook for Range on first/last, D drop first/last and collect, X a creation interrupted by an exception raised from the 5th attrs.resolve_types call} up to the stated length, "
                "each in a freshly forked process, plus F^100 and three drop-and-recreate histories of 50-60 events; after every event every converter is compared on the battery with the reference "
                "(user-hooked converters with the hooked reference, incl. below union hooks)",
        "schedules": sched_cov, "histories": hist_stats, "converter_local_audit": audit,
        "exhaustive": not lost and not capped,
        "samples": [{"schedule": [], "threads": 2, "meaning": "default schedule: thread 0 runs to completion, then thread 1"},
                    {"history": ["F", "Ud", "Hl"]}],
    }
    if lost:
        res.coverage["caps"] = ["SCHED lost control in %s: a thread blocked in a synchronisation primitive the scheduler does not own "
                                "(it owns threading.Lock/RLock objects created by the package's own code); schedules of these configurations "
                                "are NOT explored exhaustively" % sorted(set(lost))]
    if capped:
        res.coverage.setdefault("caps", []).extend(sorted(set(capped)))
    res.assumptions = ["library code (attrs, cattrs, typing) runs atomically with respect to thread switches",
                       "thread switches happen only at line boundaries of lsprotocol's own modules (CPython GIL build)"]
    return res


def replay(ctx, doc):
    if doc.get("schedule") is not None:
        h = Harness(doc.get("registry", "reduced"))
        s = h.run_once(doc.get("threads", 2), doc["schedule"])
        bad = [e for e in s.errors if e] or [i for i in range(s.n) if s.results[i] != h.reference]
        return str(bad) if bad or s.deadlock else None
    if doc.get("history"):
        values = make_battery(5)
        refs = {}
        for kind in ("plain", "forbid"):
            for hk in (False, True):
                st, r = _in_child(_reference_child, values, kind, hk)
                refs[(kind, hk)] = r
        st2, problems = _in_child(_history_child, doc["history"], {"values": values, "references": refs})
        return str(problems) if problems else None
    return None
