"""C11 - spec-invalid single-field deviations are rejected, never silently repaired."""
from __future__ import annotations

import copy

from .. import impl
from ..explore import explore_roots, get_mm, root_class, leaf_exc
from ..mm import ref, admits_null, INT_MIN, INT_MAX, UINT_MAX
from ..runner import Result, Violation

PROP = "C11"

OUT_INT = [INT_MIN - 1, INT_MAX + 1, 2**32 + 1, -(2**32) - 1, 2**63, -(2**63)]
OUT_UINT = [-1, UINT_MAX + 1, 2**32 + 1, -(2**32) - 1, 2**63, -(2**63)]


def outside_enum(mm, name):
    e = mm.enums[name]
    vals = [v["value"] for v in e["values"]]
    if e["type"]["name"] == "string":
        return ["verif-not-a-member", vals[0] + "x", vals[0].upper() if vals[0].upper() not in vals else vals[0] + "X"]
    hi = max(vals)
    out = [hi + 1, hi + 1000]
    if e["type"]["name"] == "integer" or True:
        lo = min(vals)
        if lo - 1 >= 0 or e["type"]["name"] == "integer":
            out.append(lo - 1)
        elif 0 not in vals:
            out.append(0)
    return [v for v in out if v not in vals]


def literal_neighbours(v):
    """Strings next to a string literal: super-, sub-, prefix, suffix and case variants (never the literal)."""
    out = [v + "x", "", "x" + v, v[:-1], v[1:], v[:1], v[1:-1], v.upper(), v.capitalize(), " " + v, v + " "]
    seen = []
    for x in out:
        if x != v and x not in seen:
            seen.append(x)
    return seen


def edits_at(mm, j, t, path, depth, maxdepth):
    """Yield (kind, path, new_value_or_REMOVE) for the eligible properties of the object node j (read
    as structure type t) and, up to maxdepth, of nested structure nodes."""
    if t["kind"] != "reference" or t["name"] not in mm.structures or not isinstance(j, dict):
        return
    for p in mm.flatten(t["name"]):
        pn = p["name"]
        pt = p["type"]
        if pn not in j:
            continue
        v = j[pn]
        here = path + (pn,)
        if not p.get("optional") and not admits_null(pt) and pt["kind"] != "stringLiteral":
            yield "remove-required", here, REMOVE
        # directly a base type / closed enum / string literal (arrays of them: C13 for enums; not claimed for numbers)
        targets = []
        targets = [(here, pt)]       # narrow reading: the property's declared type itself
        for tp, tt in targets:
            if tt["kind"] == "base" and tt["name"] == "integer":
                for x in OUT_INT:
                    yield "integer-out-of-range", tp, x
            elif tt["kind"] == "base" and tt["name"] == "uinteger":
                for x in OUT_UINT:
                    yield "uinteger-out-of-range", tp, x
            elif tt["kind"] == "reference" and tt["name"] in mm.enums and not mm.is_open_enum(tt["name"]):
                for x in outside_enum(mm, tt["name"]):
                    yield "closed-enum-outside", tp, x
            elif tt["kind"] == "stringLiteral":
                for x in literal_neighbours(tt["value"]):
                    yield "literal-changed", tp, x
        # nested structure nodes
        if depth < maxdepth:
            if pt["kind"] == "reference" and pt["name"] in mm.structures:
                yield from edits_at(mm, v, pt, here, depth + 1, maxdepth)
            elif pt["kind"] == "array" and isinstance(v, list) and pt["element"]["kind"] == "reference" \
                    and pt["element"]["name"] in mm.structures:
                for i, x in enumerate(v):
                    yield from edits_at(mm, x, pt["element"], here + (i,), depth + 1, maxdepth)


class _Remove:
    def __repr__(self):
        return "<removed>"


REMOVE = _Remove()


def apply(j, path, new):
    j2 = copy.deepcopy(j)
    cur = j2
    for s in path[:-1]:
        cur = cur[s]
    if new is REMOVE:
        del cur[path[-1]]
    else:
        cur[path[-1]] = new
    return j2


def owner_site(mm, name, path):
    """Innermost structure declaring the edited property + property name."""
    t = ref(name)
    site = name
    i = 0
    cur_struct = name
    while i < len(path):
        s = path[i]
        if isinstance(s, int):
            i += 1
            continue
        props = {p["name"]: p for p in mm.flatten(cur_struct)}
        p = props.get(s)
        site = "%s.%s" % (cur_struct, s)
        if p is None:
            break
        pt = p["type"]
        if pt["kind"] == "array":
            pt = pt["element"]
        if pt["kind"] == "reference" and pt["name"] in mm.structures:
            cur_struct = pt["name"]
        i += 1
    return site


def judge(mm, name, j, opts):
    conv = impl.converter()
    cls = root_class(name)
    t = ref(name)
    n = 0
    vs = []
    skipped = 0
    for kind, path, new in edits_at(mm, j, t, (), 0, opts.get("maxdepth", 0)):
        j2 = apply(j, path, new)
        if mm.valid(j2, t, False):
            skipped += 1          # the edit did not make the value spec-invalid
            continue
        n += 1
        try:
            o = conv.structure(j2, cls)
        except Exception:  # noqa: BLE001 - any exception is the required outcome
            continue
        site = owner_site(mm, name, path)
        vs.append(Violation(PROP, "accepted", site, "%s at %s: spec-invalid value structured into %s instead of raising" % (kind, site, type(o).__name__),
                            {"engine": "VSE", "root": name, "input": j2, "edit": kind, "path": [str(s) for s in path],
                             "new_value": repr(new), "observed": repr(o)[:300]}, node=j2, extra=kind))
    return max(n, 1), "rejected" if not vs else "accepted", vs


def run(ctx):
    mm = get_mm()
    res = Result()
    lsp = impl.lsp()
    roots = [n for k, n in mm.roots(True, False, False) if hasattr(lsp, n)]
    kmin, kmax = (2, 0) if ctx.thorough else (1, 0)
    opts = {"cap_s": 900 if ctx.thorough else 120, "maxdepth": 2 if ctx.thorough else 1}
    a, v = explore_roots(ctx, judge, roots, kmin, kmax, opts)
    res.merge_violations(v)
    # static census of eligible properties (vacuity guard)
    census = {"remove-required": 0, "integer": 0, "uinteger": 0, "closed-enum": 0, "literal": 0}
    for s in mm.structures:
        for p in mm.flatten(s):
            pt = p["type"]
            if not p.get("optional") and not admits_null(pt) and pt["kind"] != "stringLiteral":
                census["remove-required"] += 1
            tt = pt
            if tt["kind"] == "base" and tt["name"] in ("integer", "uinteger"):
                census[tt["name"]] += 1
            elif tt["kind"] == "reference" and tt["name"] in mm.enums and not mm.is_open_enum(tt["name"]):
                census["closed-enum"] += 1
            elif tt["kind"] == "stringLiteral":
                census["literal"] += 1
    res.coverage = {
        "states": a["states"], "transitions": a["transitions"],
        "traces_validated_against_impl": a["evals"], "evaluations": a["evals"],
        "distinct_nontrivial": a["distinct_nt"],
        "rule": "every structure x surrounding value (VSE k<=%d plus maximal) x every eligible property at the root node and at nested structure "
                "nodes to depth %d x the four edit kinds (6 out-of-range numbers, up to 3 outside-enum values, 2 changed literals); an edit "
                "counts only if MM says the edited value is spec-invalid; structure must raise" % (kmin, opts["maxdepth"]),
        "eligible_property_census": census,
        "roots": a["roots"], "outcome_classes": a["outcomes"], "capped_roots": a["capped"], "exhaustive": not a["capped"],
        "samples": a["samples"],
    }
    res.assumptions = ["eligible = property whose declared type is directly integer/uinteger/closed enum/string literal "
                       "(enum values inside arrays, maps and or-alternatives belong to C13; number arrays such as SemanticTokens.data are outside the statement)"]
    return res


def replay(ctx, doc):
    mm = get_mm()
    conv = impl.converter()
    if mm.valid(doc["input"], ref(doc["root"]), False):
        return None
    try:
        o = conv.structure(doc["input"], root_class(doc["root"]))
    except Exception:  # noqa: BLE001
        return None
    return "accepted: %r" % (o,)
