"""C04 - the generated Python package is a complete, faithful image of the metamodel (BISIM)."""
from __future__ import annotations

import ast
import enum
import os
import typing

import attrs

from .. import impl
from ..explore import get_mm
from ..img_py import resolve, expected_annotation, same_type, Unmappable, py_type
from ..mm import MM, camel_of_attr, snake, admits_null, ANY_ALIASES, INT_MIN, INT_MAX
from ..runner import Result, Violation
from .c11 import literal_neighbours

PROP = "C04"

VERDICTS = {
    "integer": ([0, INT_MIN, INT_MAX], [2**31, -(2**31) - 1, "x", 1.5]),
    "uinteger": ([0, INT_MAX], [-1, 2**31, "x", 1.5]),
    "string": (["s", ""], [5, True]),
    "DocumentUri": (["file:///a"], [5]),
    "URI": (["file:///a"], [5]),
    "RegExp": ([".*"], [5]),
    "boolean": ([True, False], [1, "x"]),
    "decimal": ([0.5], ["x"]),
}


def bisim(mm: MM, lsp, types_py_path=None):
    """Returns (violations, stats).  Reusable for evolved models (C06)."""
    vs = []
    stats = {"declarations": 0, "attributes": 0, "facets": 0, "validator_probes": 0, "extra_checked": 0}

    def bad(kind, site, what, extra=""):
        vs.append(Violation(PROP, kind, site, what, {"engine": "BISIM", "site": site, "input": None}, extra=extra))

    expected_classes = {}          # name -> (props, kind)
    for name in mm.structures:
        expected_classes[name] = (mm.flatten(name), "structure")
    literal_classes = []

    def check_class(name, cls, props, origin):
        fields = list(attrs.fields(cls))
        by_wire = {}
        for a in fields:
            w = camel_of_attr(a.name)
            if w in by_wire:
                bad("duplicate-attribute", "%s.%s" % (name, w), "two attributes map to wire name %s" % w)
            by_wire[w] = a
        want = {p["name"]: p for p in props}
        for w in want:
            if w not in by_wire:
                bad("missing-attribute", "%s.%s" % (name, w), "class %s has no attribute for property %s (%s)" % (name, w, origin))
        for w in by_wire:
            if w not in want:
                bad("extra-attribute", "%s.%s" % (name, w), "class %s has attribute %s which is no property of the metamodel %s" % (name, by_wire[w].name, origin))
        for w, p in want.items():
            a = by_wire.get(w)
            if a is None:
                continue
            stats["attributes"] += 1
            site = "%s.%s" % (name, w)
            t = p["type"]
            # wire name: attribute must be the documented snake_case of the property
            stats["facets"] += 1
            if a.name != snake(w):
                bad("attribute-name", site, "attribute %s is not the snake_case name %s of property %s" % (a.name, snake(w), w))
            # required-ness
            stats["facets"] += 1
            req = not p.get("optional") and not admits_null(t) and t["kind"] != "stringLiteral"
            if (a.default is attrs.NOTHING) != req:
                bad("required-flip", site, "%s is %s in the metamodel but the attribute %s" % (
                    site, "required" if req else "optional / null-admitting / literal",
                    "has default %r" % (a.default,) if req else "has no default"))
            elif not req and t["kind"] != "stringLiteral" and a.default is not None:
                bad("default", site, "optional attribute defaults to %r instead of None" % (a.default,))
            # annotation
            stats["facets"] += 1
            got = resolve(a.type, lsp)
            try:
                lits = []
                exp = expected_annotation(mm, p, lsp, got, lits)
                literal_classes.extend((c, lt, site) for c, lt in lits)
                if not same_type(got, exp):
                    bad("annotation", site, "annotation %s, metamodel type maps to %s" % (str(got)[:120], str(exp)[:120]))
            except Unmappable as e:
                bad("annotation", site, "cannot map metamodel type: %s" % e)
            # literal default
            if t["kind"] == "stringLiteral":
                stats["facets"] += 1
                if a.default != t["value"]:
                    bad("literal-default", site, "literal property defaults to %r instead of %r" % (a.default, t["value"]))
            # validator, behaviourally
            if t["kind"] == "base" and t["name"] in VERDICTS or t["kind"] == "stringLiteral":
                stats["facets"] += 1
                if t["kind"] == "stringLiteral":
                    acc, rej = [t["value"]], literal_neighbours(t["value"])
                else:
                    acc, rej = VERDICTS[t["name"]]
                opt = bool(p.get("optional"))
                if opt:
                    acc = list(acc) + [None]
                elif t["kind"] != "stringLiteral":
                    rej = list(rej) + [None]
                for val, should in [(v, True) for v in acc] + [(v, False) for v in rej]:
                    stats["validator_probes"] += 1
                    ok = True
                    if a.validator is None:
                        ok = True
                    else:
                        try:
                            a.validator(_Dummy(name), a, val)
                        except Exception:  # noqa: BLE001
                            ok = False
                    if ok != should:
                        bad("validator", site, "validator of %s (%s%s) %s %r" % (
                            site, t.get("name", "literal"), ", optional" if opt else "", "accepts" if ok else "rejects", val),
                            extra="accepts" if ok else "rejects")
                        break

    class _Dummy:
        def __init__(self, n):
            self.__class__ = type(n, (), {})

    # ---- metamodel -> package
    for name, (props, kind) in expected_classes.items():
        stats["declarations"] += 1
        cls = getattr(lsp, name, None)
        if name == "LSPObject" and cls is object:
            continue
        if cls is None or not (isinstance(cls, type) and attrs.has(cls)):
            bad("missing-class", name, "structure %s has no attrs class of that name" % name)
            continue
        check_class(name, cls, props, "structure")
    done_lit = set()
    while literal_classes:
        c, lt, site = literal_classes.pop()
        if c in done_lit:
            continue
        done_lit.add(c)
        check_class(c.__name__, c, lt["value"].get("properties", []), "anonymous literal at " + site)
    for name, e in mm.enums.items():
        stats["declarations"] += 1
        cls = getattr(lsp, name, None)
        if cls is None or not (isinstance(cls, type) and issubclass(cls, enum.Enum)):
            bad("missing-enum", name, "enumeration %s has no Enum class of that name" % name)
    for name, a in mm.aliases.items():
        stats["declarations"] += 1
        if not hasattr(lsp, name):
            bad("missing-alias", name, "type alias %s has no definition of that name" % name)
            continue
        if name in ANY_ALIASES:
            continue
        stats["facets"] += 1
        got = resolve(getattr(lsp, name), lsp)
        try:
            lits = []
            exp = py_type(mm, a["type"], lsp, got, lits)
            literal_classes.extend((c, lt, name) for c, lt in lits)
            if not same_type(got, exp):
                bad("alias-type", name, "alias %s is %s, metamodel type maps to %s" % (name, str(got)[:120], str(exp)[:120]))
        except Unmappable as e:
            bad("alias-type", name, "cannot map: %s" % e)
    while literal_classes:
        c, lt, site = literal_classes.pop()
        if c in done_lit:
            continue
        done_lit.add(c)
        check_class(c.__name__, c, lt["value"].get("properties", []), "anonymous literal at " + site)
    # and-types: a generated class with exactly the merged properties must exist
    for m in mm.requests + mm.notifications:
        for f in ("params", "registrationOptions"):
            t = m.get(f)
            if isinstance(t, dict) and t["kind"] == "and":
                stats["declarations"] += 1
                props = mm.and_props(t)
                names = {p["name"] for p in props}
                cands = [c for c in vars(lsp).values() if isinstance(c, type) and attrs.has(c)
                         and c.__name__ not in mm.structures and {camel_of_attr(a.name) for a in attrs.fields(c)} == names]
                if not cands:
                    bad("missing-and-class", "%s:%s" % (m["method"], f), "no generated class carries the merged properties of the and-type %s of %s" % (f, m["method"]))
                else:
                    expected_classes_and.add(cands[0].__name__)
                    check_class(cands[0].__name__, cands[0], props, "and-type %s of %s" % (f, m["method"]))
    # ---- package -> metamodel (nothing extra)
    env = mm.envelopes()
    for n, c in vars(lsp).items():
        if not isinstance(c, type) or getattr(c, "__module__", None) != lsp.__name__:
            continue
        stats["extra_checked"] += 1
        if attrs.has(c):
            if n in mm.structures or n in env or n in expected_classes_and or c in done_lit:
                continue
            bad("extra-class", n, "attrs class %s corresponds to no structure, message, and-type or literal of the metamodel" % n)
        elif issubclass(c, enum.Enum):
            if n in mm.enums or n == "MessageDirection":
                continue
            bad("extra-enum", n, "Enum %s corresponds to no enumeration of the metamodel" % n)
    # ---- text of types.py: no definition is shadowed by a later one
    if types_py_path and os.path.exists(types_py_path):
        tree = ast.parse(open(types_py_path, encoding="utf-8").read())
        seen = {}
        for node in tree.body:
            names = []
            if isinstance(node, ast.ClassDef):
                names = [node.name]
            elif isinstance(node, ast.Assign):
                names = [t.id for t in node.targets if isinstance(t, ast.Name)]
            elif isinstance(node, ast.AnnAssign) and isinstance(node.target, ast.Name):
                names = [node.target.id]
            elif isinstance(node, ast.FunctionDef):
                names = [node.name]
            for nm in names:
                stats["facets"] += 1
                if nm in seen:
                    bad("shadowed-definition", nm, "%s is defined at line %d and again at line %d of types.py" % (nm, seen[nm], node.lineno))
                seen[nm] = node.lineno
    return vs, stats


expected_classes_and = set()


def second_generation_in_one_process():
    """History: the python plugin generates for the committed model and then, in the same interpreter, for an
    evolved model B; the product walk is repeated (fresh interpreter, evolved package) on the second output."""
    import copy
    import json
    import logging
    import shutil
    import subprocess
    from .. import docs
    from ..genrun import scratch, rm, PY
    from ..runner import VERIF
    from .c16 import evolve_for_history
    work = scratch("lspverif-c04b-")
    logging.disable(logging.CRITICAL)
    try:
        model = impl.generator_module("generator.model")
        plugin = impl.generator_module("generator.plugins.python")
        a = docs.committed()
        b = evolve_for_history(a)
        for i, d in enumerate((a, b)):
            o, t = os.path.join(work, "o%d" % i), os.path.join(work, "t%d" % i)
            os.makedirs(o), os.makedirs(t)
            plugin.generate(model.create_lsp_model([copy.deepcopy(d)]), o, t)
        pkg = os.path.join(work, "pkg", "lsprotocol")
        os.makedirs(pkg)
        src_pkg = os.path.join(impl.REPO, "packages", "python", "lsprotocol")
        for f in os.listdir(src_pkg):
            if f.endswith(".py") and f != "types.py" or f == "py.typed":
                shutil.copy(os.path.join(src_pkg, f), os.path.join(pkg, f))
        shutil.copy(os.path.join(work, "o1", "lsprotocol", "types.py"), os.path.join(pkg, "types.py"))
        mp_ = docs.write(b, os.path.join(work, "model.json"))
        bp = docs.write(a, os.path.join(work, "base.json"))
        env = dict(os.environ)
        env.update({"LSPVERIF_PYPKG": os.path.join(work, "pkg"), "LSPVERIF_MODEL": mp_, "PYTHONPATH": VERIF, "PYTHONHASHSEED": "0",
                    "PYTHONDONTWRITEBYTECODE": "1"})
        outp = os.path.join(work, "state.json")
        pr = subprocess.run([PY, "-m", "lspverif.evo_state", bp, "-", outp, "2", "bisim"], cwd=VERIF, env=env, capture_output=True, text=True, timeout=600)
        if pr.returncode != 0 or not os.path.exists(outp):
            return None, "evaluation subprocess failed: %s" % (pr.stderr or pr.stdout)[-300:]
        st = json.load(open(outp))
        if st["import_error"]:
            return None, "types.py of the second generation does not import: %s" % st["import_error"]
        return st, None
    except Exception as e:  # noqa: BLE001
        return None, "python plugin fails on the second (evolved) model in one process: %s: %s" % (type(e).__name__, str(e)[:200])
    finally:
        logging.disable(logging.NOTSET)
        rm(work)


def run(ctx):
    mm = get_mm()
    lsp = impl.lsp()
    impl.converter()
    res = Result()
    expected_classes_and.clear()
    vs, stats = bisim(mm, lsp, os.path.join(impl.PY_PKG, "lsprotocol", "types.py"))
    res.merge_violations(vs)
    st2, err2 = second_generation_in_one_process()
    if err2:
        res.add(Violation(PROP, "plugin", "python:second-run", err2, {"engine": "BISIM", "input": None}))
    else:
        for v in st2["violations"]:
            if v["checker"] != PROP:
                continue
            parts = v["sig"].split(":", 2)
            res.add(Violation(PROP, parts[1], parts[2] if len(parts) > 2 else "?", "second generation in the same process, evolved model: " + v["what"],
                              {"engine": "BISIM", "history": "committed model, then evolved model B, one interpreter", "input": None}, extra="second-run"))
        stats["second_run_facets"] = st2["stats"].get("c04_facets", 0)
    n_states = stats["declarations"] + stats["attributes"]
    res.coverage = {
        "states": n_states, "transitions": stats["facets"] + stats["validator_probes"] + stats.get("second_run_facets", 0),
        "traces_validated_against_impl": stats["facets"] + stats["validator_probes"],
        "evaluations": stats["facets"] + stats["validator_probes"], "distinct_nontrivial": stats["attributes"],
        "rule": "product walk metamodel x imported package: every structure/enum/alias/and-type (declaration states) and every flattened property "
                "(attribute states) x facets {attribute name, required-ness, annotation as typing object, literal default, validator verdict table}; "
                "reverse walk over every class/enum defined in lsprotocol.types; duplicate top-level definitions in the text of types.py; "
                "history: the python plugin generates in ONE interpreter for the committed model and then for the evolved model B "
                "(c16.evolve_for_history) and the same product walk is repeated on the second output",
        **stats, "exhaustive": True,
        "samples": [{"class": "Position", "attributes": [(a.name, str(a.type)) for a in attrs.fields(lsp.Position)]}],
    }
    res.assumptions = ["MM type mapping of Appendix B", "validators judged on clear-cut values only"]
    return res


def replay(ctx, doc):
    r = run(ctx)
    return "; ".join(v.what for v in r.violations.values() if v.site == doc.get("site")) or None
