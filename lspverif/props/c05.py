"""C05 - committed packages are exactly what the generator emits for the committed model."""
from __future__ import annotations

import ast
import os
import shutil
import re

from .. import impl
from ..genrun import run_cli, scratch, rm, rustfmt
from ..runner import Result, Violation

PROP = "C05"


class _Norm(ast.NodeTransformer):
    """Normalise whitespace inside string constants that are docstrings / bare string statements."""

    def visit_Expr(self, node):
        if isinstance(node.value, ast.Constant) and isinstance(node.value.value, str):
            node.value = ast.Constant(value=" ".join(node.value.value.split()))
        return node


def stmt_key(node):
    if isinstance(node, (ast.ClassDef, ast.FunctionDef)):
        return node.name
    if isinstance(node, ast.Assign):
        return ",".join(t.id for t in node.targets if isinstance(t, ast.Name)) or "assign"
    if isinstance(node, ast.AnnAssign) and isinstance(node.target, ast.Name):
        return node.target.id
    if isinstance(node, (ast.Import, ast.ImportFrom)):
        return "import " + ",".join(a.name for a in node.names)
    if isinstance(node, ast.Expr):
        return "docstring"
    return type(node).__name__


def py_statements(src):
    tree = ast.parse(src)
    out = []
    for node in tree.body:
        node = _Norm().visit(node)
        out.append((stmt_key(node), ast.dump(node, include_attributes=False)))
    return out


def rust_items(src):
    """Top-level items of a rustfmt-formatted file: split at blank lines at brace depth 0."""
    items = []
    cur = []
    depth = 0
    for line in src.splitlines():
        stripped = line.strip()
        if not stripped and depth == 0:
            if cur:
                items.append("\n".join(cur))
                cur = []
            continue
        cur.append(line)
        code = re.sub(r'"(\\.|[^"\\])*"', '""', line)
        code = code.split("//")[0]
        depth += code.count("{") - code.count("}")
    if cur:
        items.append("\n".join(cur))
    return items


def rust_item_name(item):
    m = re.search(r"\b(?:pub\s+)?(struct|enum|type|impl(?:<[^>]*>)?|fn|use|trait|mod)\s+([A-Za-z0-9_:<>]+(?:\s+for\s+[A-Za-z0-9_<>]+)?)", item)
    return (m.group(1) + " " + m.group(2)) if m else item.strip().splitlines()[0][:60]


def compare(res, label, committed, generated, site_prefix):
    """Pairwise comparison of two item lists [(name, body)], both directions."""
    n = 0
    ci = {}
    for k, b in committed:
        ci.setdefault(k, []).append(b)
    gi = {}
    for k, b in generated:
        gi.setdefault(k, []).append(b)
    for k in ci:
        n += 1
        if k not in gi:
            res.add(Violation(PROP, "not-generated", site_prefix + k, "%s: committed item %s is not produced by the generator" % (label, k),
                              {"engine": "BISIM", "file": label, "item": k, "input": None}))
        elif ci[k] != gi[k]:
            res.add(Violation(PROP, "differs", site_prefix + k, "%s: item %s differs between the committed file and the generator output" % (label, k),
                              {"engine": "BISIM", "file": label, "item": k, "committed": ci[k][0][:600], "generated": gi[k][0][:600], "input": None}))
    for k in gi:
        n += 1
        if k not in ci:
            res.add(Violation(PROP, "not-committed", site_prefix + k, "%s: generator produces item %s which the committed file lacks" % (label, k),
                              {"engine": "BISIM", "file": label, "item": k, "generated": gi[k][0][:600], "input": None}))
    # order
    if [k for k, _ in committed] != [k for k, _ in generated] and not res.violations:
        res.add(Violation(PROP, "order", site_prefix + "order", "%s: same items in a different order" % label,
                          {"engine": "BISIM", "file": label, "input": None}))
    return n


def run(ctx):
    res = Result()
    out = scratch("lspverif-c05-")
    tst = scratch("lspverif-c05t-")
    stats = {}
    try:
        # ---- python
        r = run_cli("python", out, tst, hashseed=str(ctx.seed % 7))
        if r.returncode != 0:
            res.add(Violation(PROP, "plugin-fails", "python", "python plugin exits %d: %s" % (r.returncode, (r.stderr or r.stdout)[-300:]),
                              {"engine": "BISIM", "plugin": "python", "input": None}))
        else:
            gen = open(os.path.join(out, "lsprotocol", "types.py"), encoding="utf-8").read()
            com = open(os.path.join(impl.PY_PKG, "lsprotocol", "types.py"), encoding="utf-8").read()
            try:
                gs = py_statements(gen)
            except SyntaxError as e:
                gs = None
                res.add(Violation(PROP, "syntax", "python", "generated types.py does not parse: %s" % e, {"engine": "BISIM", "input": None}))
            if gs is not None:
                cs = py_statements(com)
                stats["python_statements_committed"] = len(cs)
                stats["python_statements_generated"] = len(gs)
                stats["python_comparisons"] = compare(res, "types.py", cs, gs, "py:")
        # ---- rust (own fresh directory: histories of the output directory are C16's subject), in the two
        # configurations of the test directory: empty, and as in the repository (tests/rust/src/main.rs present,
        # which is what `nox -s generate_rust` and the default --test-dir give the plugin)
        for cfg in ("empty-test-dir", "repo-test-dir"):
            rm(out)
            out = scratch("lspverif-c05r-")
            if cfg == "repo-test-dir":
                src = os.path.join(impl.REPO, "tests", "rust", "src", "main.rs")
                if not os.path.exists(src):
                    continue
                os.makedirs(os.path.join(tst, "src"), exist_ok=True)
                shutil.copy(src, os.path.join(tst, "src", "main.rs"))
            _rust(res, stats, out, tst, ctx, cfg)
    finally:
        rm(out)
        rm(tst)
    return _finish(res, stats)


def _rust(res, stats, out, tst, ctx, cfg):
    if True:
        r = run_cli("rust", out, tst, hashseed=str(1 + ctx.seed % 5))
        stats["rust_configurations"] = stats.get("rust_configurations", []) + [cfg]
        if r.returncode != 0:
            res.add(Violation(PROP, "plugin-fails", "rust", "rust plugin exits %d: %s" % (r.returncode, (r.stderr or r.stdout)[-300:]),
                              {"engine": "BISIM", "plugin": "rust", "input": None}))
        else:
            gp = os.path.join(out, "lsprotocol", "src", "lib.rs")
            f = rustfmt(gp)
            if f.returncode != 0:
                res.add(Violation(PROP, "syntax", "rust", "rustfmt rejects the generated lib.rs: %s" % f.stderr[-300:], {"engine": "BISIM", "input": None}))
            else:
                gen = open(gp, encoding="utf-8").read()
                com = open(os.path.join(impl.REPO, "packages", "rust", "lsprotocol", "src", "lib.rs"), encoding="utf-8").read()
                stats["rust_bytes_identical"] = stats.get("rust_bytes_identical", True) and gen == com
                gi = [(rust_item_name(i), i) for i in rust_items(gen)]
                ci = [(rust_item_name(i), i) for i in rust_items(com)]
                stats["rust_items_committed"] = len(ci)
                stats["rust_items_generated"] = len(gi)
                stats["rust_comparisons"] = stats.get("rust_comparisons", 0) + compare(res, "lib.rs", ci, gi, "rs:")
                if gen != com and not any(v.site.startswith("rs:") for v in res.violations.values()):
                    res.add(Violation(PROP, "differs", "rs:bytes", "lib.rs: byte difference outside item bodies (whitespace / blank lines)",
                                      {"engine": "BISIM", "file": "lib.rs", "input": None}))


def _finish(res, stats):
    n = stats.get("python_comparisons", 0) + stats.get("rust_comparisons", 0)
    res.coverage = {
        "states": stats.get("python_statements_committed", 0) + stats.get("rust_items_committed", 0) + 1, "transitions": max(n, 1),
        "traces_validated_against_impl": 1 + len(stats.get("rust_configurations", [])), "evaluations": max(n, 1),
        "distinct_nontrivial": stats.get("python_statements_committed", 0) + stats.get("rust_items_committed", 0),
        "rule": "the python and rust plugins of the current tree are run through the real CLI on the committed model; every top-level statement "
                "of types.py (AST, docstring whitespace normalised) and every item of lib.rs (after rustfmt --edition 2021; plus whole-file byte "
                "equality) is compared pairwise in both directions; the rust plugin runs in both configurations of its test directory (empty; "
                "tests/rust/src/main.rs present as in the repository's own workflow). One tree (as it is): the degenerate end of the family.",
        **stats, "exhaustive": True,
        "samples": [{"python_statement": "class Position", "rust_item": "struct Position"}],
    }
    res.assumptions = ["rustfmt 1.9 as installed stands for `cargo fmt` of the build; the Python formatter pass is modelled by AST equality"]
    return res


def replay(ctx, doc):
    r = run(ctx)
    return "; ".join(v.what for v in list(r.violations.values())[:3]) or None
