"""C08 - .NET classes declare the metamodel's wire schema and message metadata (BISIM on .cs text)."""
from __future__ import annotations

import collections
import os
import re

from .. import impl, docs
from ..genrun import run_cli, scratch, rm
from ..img_cs import parse_dir, data_member_name, null_ignoring, norm, CsParseError
from ..mm import MM, admits_null, is_null_type, upper_camel
from ..runner import Result, Violation, load_known, match_known

PROP = "C08"
BASE_CS = {"string": "string", "RegExp": "string", "DocumentUri": "Uri", "URI": "Uri", "decimal": "float", "integer": "int",
           "uinteger": "long", "boolean": "bool", "null": "object"}
SPECIAL_STRUCTS = {"LSPObject", "InitializedParams"}     # documented special classes (open dictionaries)


def cs_mm(doc):
    mm = MM(doc)
    mm.open_overrides = set()
    return mm


def direction_name(d):
    return upper_camel(d)


class Mapper:
    def __init__(self, mm, decls):
        self.mm = mm
        self.decls = decls

    def class_by_members(self, names):
        want = sorted(names)
        for n, d in self.decls.items():
            if n in self.mm.structures or d["kind"] != "record":
                continue
            got = sorted(x for x in (data_member_name(m["attrs"]) for m in d["members"]) if x is not None)
            if got == want:
                return n
        return None

    def cs(self, t, got=None):
        """MM's C# mapping; `got` (artefact type at the same position) resolves invented names."""
        k = t["kind"]
        mm = self.mm
        if k == "base":
            return BASE_CS[t["name"]]
        if k == "reference":
            n = t["name"]
            if n in mm.enums and mm.is_open_enum(n):
                return "string" if mm.enum_base(n) == "string" else "int"
            return "CommandAction" if n == "Command" else n
        if k == "array":
            inner_got = None
            if got:
                m = re.match(r"^ImmutableArray<(.*)>$", norm(got))
                inner_got = m.group(1) if m else None
            return "ImmutableArray<%s>" % self.cs(t["element"], inner_got)
        if k == "map":
            vgot = None
            if got:
                m = re.match(r"^ImmutableDictionary<([^,]+),(.*)>$", norm(got))
                vgot = m.group(2) if m else None
            v = t["value"]
            if v["kind"] == "or" and len([i for i in v["items"] if not is_null_type(i)]) >= 2:
                # the plugin invents a class for or-typed map values; it must exist and derive from the OrType
                if vgot and vgot in self.decls and norm(self.decls[vgot]["bases"]) == norm(self.cs(v)):
                    vt = vgot
                else:
                    vt = self.cs(v)
            else:
                vt = self.cs(v, vgot)
            return "ImmutableDictionary<%s,%s>" % (self.cs(t["key"]), vt)
        if k == "or":
            items = [i for i in t["items"] if not is_null_type(i)]
            if len(items) == 1:
                return self.cs(items[0], got)
            return "OrType<%s>" % ",".join(self.cs(i) for i in items)
        if k == "tuple":
            items = [i for i in t["items"] if not is_null_type(i)]
            return "(%s)" % ",".join(self.cs(i) for i in items)
        if k == "stringLiteral":
            return "string"
        if k == "literal":
            props = t["value"].get("properties", [])
            if not props:
                return "LSPObject"
            # the plugin invents one record per occurrence; any record with exactly the literal's members will do
            g = (got or "").rstrip("?")
            d = self.decls.get(g)
            if d is not None and g not in self.mm.structures and d["kind"] == "record" and \
                    sorted(x for x in (data_member_name(m["attrs"]) for m in d["members"]) if x is not None) == sorted(p["name"] for p in props):
                return g
            n = self.class_by_members([p["name"] for p in props])
            return n or "<no record with members %s>" % sorted(p["name"] for p in props)
        return "<%s>" % k


def bisim(doc, decls, nfiles):
    vs = []
    stats = {"files": nfiles, "structures": 0, "members": 0, "enums": 0, "methods": 0, "facets": 0}

    def bad(kind, site, what, extra=""):
        vs.append(Violation(PROP, kind, site, what, {"engine": "BISIM", "site": site, "input": None}, extra=extra))

    mm = cs_mm(doc)
    mp = Mapper(mm, decls)

    def check_members(owner, d, props, origin):
        members = {}
        for m in d["members"]:
            w = data_member_name(m["attrs"])
            if w is None:
                continue
            if w in members:
                bad("duplicate-member", "%s.%s" % (owner, w), "two data members named %s in %s" % (w, owner))
            members[w] = m
        want = {p["name"]: p for p in props}
        stats["facets"] += 1
        if set(members) != set(want):
            bad("member-set", owner, "%s (%s): data members differ from the metamodel: missing %s, extra %s" % (
                owner, origin, sorted(set(want) - set(members)), sorted(set(members) - set(want))))
        ctor = d.get("ctor")
        assigned = {a for a, _ in ctor["assigns"]} if ctor else set()
        cparams = {p[1] for p in ctor["params"]} if ctor else set()
        if ctor is None or not ctor.get("json"):
            bad("no-json-constructor", owner, "%s has no [JsonConstructor]" % owner)
        for w, p in want.items():
            m = members.get(w)
            if m is None:
                continue
            stats["members"] += 1
            site = "%s.%s" % (owner, w)
            t = p["type"]
            got = norm(m["type"])
            nullable = got.endswith("?")
            core = got[:-1] if nullable else got
            want_core = norm(mp.cs(t, core))
            stats["facets"] += 1
            if core != want_core:
                bad("member-type", site, "%s has C# type %s, metamodel type maps to %s" % (site, m["type"], want_core))
            is_coll = core.startswith("ImmutableArray<") or core.startswith("ImmutableDictionary<")
            na = admits_null(t)
            opt = bool(p.get("optional"))
            stats["facets"] += 2
            if not is_coll:
                if nullable != (opt or na):
                    bad("nullable", site, "%s is %snullable but optional=%s, null-admitting=%s" % (site, "" if nullable else "not ", opt, na))
                if null_ignoring(m["attrs"]) != (opt and not na):
                    bad("null-ignoring", site, "%s %s NullValueHandling.Ignore but optional=%s, null-admitting=%s" % (
                        site, "has" if null_ignoring(m["attrs"]) else "lacks", opt, na))
            else:
                if null_ignoring(m["attrs"]) and not (opt and not na):
                    bad("null-ignoring", site, "%s has NullValueHandling.Ignore but optional=%s, null-admitting=%s" % (site, opt, na))
                elif (opt and not na) and not null_ignoring(m["attrs"]):
                    bad("optional-collection-not-null-ignoring", "collections", "%s: optional, not null-admitting collection member without null-ignoring: an unset value is written as null" % site, extra="")
            stats["facets"] += 1
            if ctor and m["name"] not in assigned:
                bad("not-assigned-in-constructor", site, "data member %s.%s is not assigned in the JSON constructor" % (owner, m["name"]))
            if t["kind"] == "stringLiteral":
                stats["facets"] += 1
                if m.get("init") != t["value"]:
                    bad("literal-init", site, "literal member %s is initialised to %r instead of %r" % (site, m.get("init"), t["value"]))
        if ctor:
            for lhs, rhs in ctor["assigns"]:
                if rhs not in cparams:
                    bad("constructor-assign", "%s.%s" % (owner, lhs), "constructor of %s assigns %s from %s which is no parameter" % (owner, lhs, rhs))

    # ---- structures
    for name in mm.structures:
        stats["structures"] += 1
        cname = "CommandAction" if name == "Command" else name
        d = decls.get(cname)
        if d is None:
            bad("missing-record", name, "structure %s has no generated C# type" % name)
            continue
        if name in SPECIAL_STRUCTS and not mm.flatten(name):
            continue        # property-less open dictionaries; once they declare properties the record rule applies
        if d["kind"] != "record":
            bad("not-a-record", name, "structure %s is generated as %s" % (name, d["kind"]))
            continue
        check_members(cname, d, mm.flatten(name), "structure")
    # ---- enumerations
    for name, e in mm.enums.items():
        stats["enums"] += 1
        d = decls.get(name)
        stats["facets"] += 1
        if d is None or d["kind"] != "enum":
            bad("missing-enum", name, "enumeration %s has no C# enum" % name)
            continue
        want = collections.Counter(repr(v["value"]) for v in e["values"])
        got = collections.Counter(repr(v) for _, v in d["enum_members"])
        if want != got:
            bad("enum-values", name, "enum %s: values differ: missing %s, extra/altered %s" % (name, sorted((want - got).elements())[:5], sorted((got - want).elements())[:5]))
    # ---- messages
    methods_class = decls.get("LSPMethods")
    catalogue = collections.Counter(v for _, v, _ in (methods_class["statics"] if methods_class else []))
    want_methods = collections.Counter(m["method"] for m in mm.requests + mm.notifications)
    stats["facets"] += 1
    if catalogue != want_methods:
        bad("method-catalogue", "LSPMethods", "LSPMethods: missing %s, extra %s" % (sorted((want_methods - catalogue).elements())[:4], sorted((catalogue - want_methods).elements())[:4]))
    for r in mm.requests:
        stats["methods"] += 1
        req, resp, _ = mm.request_class_names(r)
        d = decls.get(req)
        if d is None:
            bad("missing-message-class", r["method"], "request %s has no class %s" % (r["method"], req))
        else:
            stats["facets"] += 3
            lr = [a for a in d["attrs"] if a.startswith("LSPRequest(")]
            m = re.match(r'^LSPRequest\("((?:[^"\\]|\\.)*)"\s*,\s*typeof\(([A-Za-z0-9_]+)\)', lr[0]) if lr else None
            if not m:
                bad("request-attribute", req, "%s has no [LSPRequest(\"method\", typeof(Response))] attribute" % req)
            else:
                if m.group(1) != r["method"]:
                    bad("method-string", req, "%s carries method %r instead of %r" % (req, m.group(1), r["method"]))
                if m.group(2) != resp:
                    bad("request-response-pair", req, "%s is paired with %s instead of %s" % (req, m.group(2), resp))
            _direction(bad, d, req, r)
            _envelope(bad, mp, d, req, r, "request", stats)
        d2 = decls.get(resp)
        if d2 is None:
            bad("missing-message-class", r["method"], "request %s has no response class %s" % (r["method"], resp))
        else:
            stats["facets"] += 1
            lr = [a for a in d2["attrs"] if a.startswith("LSPResponse(")]
            m = re.match(r"^LSPResponse\(typeof\(([A-Za-z0-9_]+)\)\)$", lr[0]) if lr else None
            if not m or m.group(1) != req:
                bad("response-request-pair", resp, "%s is not tagged [LSPResponse(typeof(%s))]" % (resp, req))
            _envelope(bad, mp, d2, resp, r, "response", stats)
    for nt in mm.notifications:
        stats["methods"] += 1
        cls = mm.notification_class_name(nt)
        d = decls.get(cls)
        if d is None:
            bad("missing-message-class", nt["method"], "notification %s has no class %s" % (nt["method"], cls))
            continue
        stats["facets"] += 1
        _direction(bad, d, cls, nt)
        _envelope(bad, mp, d, cls, nt, "notification", stats)
    return vs, stats


def _direction(bad, d, cls, m):
    dirs = [a for a in d["attrs"] if a.startswith("Direction(")]
    want = "Direction(MessageDirection.%s)" % direction_name(m["messageDirection"])
    if not dirs:
        bad("direction", cls, "%s has no [Direction] attribute (metamodel: %s)" % (cls, m["messageDirection"]), extra="missing")
    elif any(norm(a) != norm(want) for a in dirs):
        bad("direction", cls, "%s is tagged [%s] but the metamodel direction of %s is %s" % (cls, dirs[0], m["method"], m["messageDirection"]),
            extra="%s-instead-of-%s" % (dirs[0][len("Direction(MessageDirection."):-1], direction_name(m["messageDirection"])))


def _envelope(bad, mp, d, cls, m, role, stats):
    members = {data_member_name(x["attrs"]): x for x in d["members"] if data_member_name(x["attrs"])}
    need = {"jsonrpc"}
    if role == "request":
        need |= {"id", "method", "params"}
    elif role == "notification":
        need |= {"method", "params"}
    else:
        need |= {"id", "result"}
    stats["facets"] += 1
    if not need <= set(members):
        bad("envelope-members", cls, "%s lacks data members %s" % (cls, sorted(need - set(members))))
    ctor = d.get("ctor")
    if ctor:
        assigned = {a for a, _ in ctor["assigns"]}
        for w, x in members.items():
            if x["name"] not in assigned:
                bad("not-assigned-in-constructor", "%s.%s" % (cls, w), "data member %s.%s is not assigned in the JSON constructor" % (cls, x["name"]))
    else:
        bad("no-json-constructor", cls, "%s has no [JsonConstructor]" % cls)
    p = m.get("params")
    if role != "response" and isinstance(p, dict) and "params" in members:
        stats["facets"] += 1
        got = norm(members["params"]["type"])
        want = norm(mp.cs(p, got))
        if got.rstrip("?") != want:
            bad("envelope-params", cls, "%s.params has type %s, metamodel params map to %s" % (cls, members["params"]["type"], want))
    if role == "response" and m.get("result") and "result" in members:
        stats["facets"] += 1
        got = norm(members["result"]["type"])
        want = norm(mp.cs(m["result"], got.rstrip("?")))
        if got.rstrip("?") != want:
            bad("envelope-result", cls, "%s.result has type %s, metamodel result maps to %s" % (cls, members["result"]["type"], want))


def generate(doc_path=None):
    out, tst = scratch("lspverif-c08-"), scratch("lspverif-c08t-")
    try:
        r = run_cli("dotnet", out, tst, [doc_path] if doc_path else None)
        if r.returncode != 0:
            return None, 0, "dotnet plugin exits %d: %s" % (r.returncode, (r.stderr or r.stdout)[-300:])
        try:
            decls, n = parse_dir(os.path.join(out, "lsprotocol"))
        except CsParseError as e:
            return None, 0, "generated C# is outside the emitted subset: %s" % e
        return decls, n, None
    finally:
        rm(out), rm(tst)


def second_generation_in_one_process():
    """Committed model, then in the same interpreter an evolved model; the relation is checked on the second output."""
    import copy
    import logging
    from .c16 import evolve_for_history
    impl.setup_paths()
    model = impl.generator_module("generator.model")
    plugin = impl.generator_module("generator.plugins.dotnet")
    base = docs.small_base()
    evolved = evolve_for_history(docs.slice_model(docs.committed(), methods=("textDocument/hover", "textDocument/didOpen", "shutdown", "textDocument/colorPresentation"), names=("FoldingRange",)))
    out = scratch("lspverif-c08b-")
    logging.disable(logging.CRITICAL)
    try:
        for i, d in enumerate((base, evolved)):
            o, t = os.path.join(out, "o%d" % i), os.path.join(out, "t%d" % i)
            os.makedirs(o), os.makedirs(t)
            plugin.generate(model.create_lsp_model([copy.deepcopy(d)]), o, t)
        decls, n = parse_dir(os.path.join(out, "o1", "lsprotocol"))
        return evolved, decls, n, None
    except Exception as e:  # noqa: BLE001
        return evolved, None, 0, "dotnet plugin fails on the second (evolved) model in one process: %s: %s" % (type(e).__name__, str(e)[:200])
    finally:
        logging.disable(logging.NOTSET)
        rm(out)


def run(ctx):
    res = Result()
    doc = docs.committed()
    ev_doc, ev_decls, ev_n, ev_err = second_generation_in_one_process()
    if ev_err:
        res.add(Violation(PROP, "plugin", "dotnet:second-run", ev_err, {"engine": "BISIM", "input": None}))
    else:
        known = load_known()
        vs2, st2 = bisim(ev_doc, ev_decls, ev_n)
        for v in vs2:
            if match_known(v, known) is not None:
                res.add(v)          # same known finding as on the committed model
            else:
                res.add(Violation(PROP, v.kind, v.site, "second generation in the same process, evolved model: " + v.what, v.replay, extra="second-run"))
    decls, nfiles, err = generate()
    stats = {}
    if err:
        res.add(Violation(PROP, "plugin", "dotnet", err, {"engine": "BISIM", "input": None}))
    else:
        vs, stats = bisim(doc, decls, nfiles)
        res.merge_violations(vs)
    n = stats.get("facets", 0)
    res.coverage = {
        "states": stats.get("structures", 0) + stats.get("enums", 0) + stats.get("methods", 0) + stats.get("members", 0) + 1,
        "transitions": max(n, 1), "traces_validated_against_impl": 1, "evaluations": max(n, 1),
        "distinct_nontrivial": stats.get("members", 0),
        "rule": "product walk metamodel x parsed .cs files of the dotnet plugin's output for the committed model: every structure (data member set "
                "by DataMember name, mapped C# type, nullable, null-ignoring, assignment in the JSON constructor, literal initialiser), every "
                "enumeration (values as multiset), every method (LSPRequest method string and response pairing, LSPResponse pairing, LSPMethods "
                "catalogue, Direction attribute on request and notification classes, envelope members and their types)",
        **stats, "exhaustive": True,
        "samples": [{"record": "Position", "members": [[m["name"], m["type"]] for m in decls["Position"]["members"]]}] if decls else [{}],
    }
    res.assumptions = ["own parser for the emitted C# subset; no .NET toolchain in the image, so the check is on the text as the property says",
                       "'message class tagged with the direction' is read as request and notification classes (responses carry LSPResponse only)",
                       "collection-typed members are value types (ImmutableArray/ImmutableDictionary) and exempt from the nullable rule"]
    return res


def replay(ctx, doc):
    r = run(ctx)
    return "; ".join(v.what for v in r.violations.values() if v.site == doc.get("site"))[:500] or None
