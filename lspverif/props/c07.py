"""C07 - generated Rust crate declares the metamodel's wire schema (BISIM on lib.rs)."""
from __future__ import annotations

import collections
import os
import re

from .. import impl, docs
from ..genrun import run_cli, scratch, rm, rustfmt
from ..img_rs import parse, serde_rename, rename_all, has_cfg_proposed, is_untagged, serde_camel, norm_type, strip_box, RustParseError
from ..mm import MM, admits_null, is_null_type, canon
from ..runner import Result, Violation

PROP = "C07"

SUPPORT = {"CustomStringEnum", "CustomIntEnum", "LSPNull", "LSPAny", "LSPObject", "LSPArray", "LSPId", "LSPIdOptional",
           "MessageDirection", "LSPRequestMethods", "LSPNotificationMethods"}
BASE_RS = {"string": "String", "RegExp": "String", "DocumentUri": "Url", "URI": "Url", "decimal": "Decimal",
           "integer": "i32", "uinteger": "u32", "boolean": "bool"}


def rust_mm(doc):
    mm = MM(doc)
    mm.open_overrides = set()
    return mm


def struct_wire_names(st):
    ra = rename_all(st["attrs"])
    names = []
    for f in st["fields"]:
        r = serde_rename(f["attrs"])
        if r is not None:
            names.append(r)
        elif ra == "camelCase":
            names.append(serde_camel(f["name"]))
        else:
            names.append(f["name"])
    return names


class Mapper:
    def __init__(self, mm, img):
        self.mm = mm
        self.img = img
        self.literal_structs = set()

    def literal_struct(self, props, got=None):
        """Invented names are resolved structurally: any generated struct (not a metamodel structure)
        whose serde field names are the literal's property names; the one named at the position wins."""
        want = sorted(p["name"] for p in props)
        cands = [n for n, st in self.img["structs"].items() if n not in self.mm.structures and sorted(struct_wire_names(st)) == want]
        if got:
            ids = set(re.findall(r"[A-Za-z_][A-Za-z0-9_]*", got))
            for n in cands:
                if n in ids:
                    return n
        return cands[0] if cands else None

    def rs(self, t, got=None):
        """MM's Rust mapping of a type expression (without the Option wrapper); `got` is the artefact
        type at the position, used only to resolve invented literal-struct names."""
        k = t["kind"]
        mm = self.mm
        if k == "base":
            if t["name"] == "null":
                return "LSPNull"
            return BASE_RS[t["name"]]
        if k == "reference":
            n = t["name"]
            if n in mm.enums and mm.is_open_enum(n):
                b = mm.enum_base(n)
                return ("CustomStringEnum<%s>" if b == "string" else "CustomIntEnum<%s>") % n
            return n
        if k == "array":
            return "Vec<%s>" % self.rs(t["element"], got)
        if k == "map":
            return "HashMap<%s,%s>" % (self.rs(t["key"]), self.rs(t["value"], got))
        if k == "or":
            items = [i for i in t["items"] if not is_null_type(i)]
            subs = [self.rs(i, got) for i in items]
            if len(subs) == 1:
                return subs[0]
            return "OR%d<%s>" % (len(subs), ",".join(subs))
        if k == "tuple":
            items = [i for i in t["items"] if not is_null_type(i)]
            subs = [self.rs(i) for i in items]
            return subs[0] if len(subs) == 1 else "(%s)" % ",".join(subs)
        if k == "stringLiteral":
            return "String"
        if k == "literal":
            props = t["value"].get("properties", [])
            if not props:
                return "LSPObject"
            n = self.literal_struct(props, got)
            if n is None:
                return "<no struct with fields %s>" % sorted(p["name"] for p in props)
            self.literal_structs.add((n, canon(t)))
            return n
        return "<%s>" % k

    def field_type(self, p, got=None):
        inner = self.rs(p["type"], got)
        opt = bool(p.get("optional")) or admits_null(p["type"])
        return ("Option<%s>" % inner) if opt else inner


def bisim(doc, src):
    """-> (violations, stats)"""
    vs = []
    stats = {"structs": 0, "fields": 0, "enums": 0, "enum_values": 0, "aliases": 0, "methods": 0, "facets": 0, "items_in_file": 0}

    def bad(kind, site, what, extra=""):
        vs.append(Violation(PROP, kind, site, what, {"engine": "BISIM", "site": site, "input": None}, extra=extra))

    try:
        img = parse(src)
    except RustParseError as e:
        bad("parse", "lib.rs", "lib.rs is outside the emitted Rust subset: %s" % e)
        return vs, stats
    mm = rust_mm(doc)
    mp = Mapper(mm, img)
    stats["items_in_file"] = len(img["structs"]) + len(img["enums"]) + len(img["aliases"])
    referenced = set()

    def check_fields(owner, st, props, origin, proposed_owner):
        ra = rename_all(st["attrs"])
        wire = struct_wire_names(st)
        want = [p["name"] for p in props]
        stats["facets"] += 1
        if sorted(wire) != sorted(want):
            missing = sorted(set(want) - set(wire))
            extra = sorted(set(wire) - set(want))
            bad("field-set", owner, "struct %s (%s): serde field names differ from the metamodel: missing %s, extra %s" % (owner, origin, missing, extra))
        byw = dict(zip(wire, st["fields"]))
        for p in props:
            f = byw.get(p["name"])
            if f is None:
                continue
            stats["fields"] += 1
            site = "%s.%s" % (owner, p["name"])
            stats["facets"] += 1
            got_t = norm_type(strip_box(f["type"]))
            want_t = norm_type(mp.field_type(p, got_t))
            if got_t != want_t:
                if got_t.startswith("Option<") != want_t.startswith("Option<"):
                    bad("option", site, "field %s is %s, metamodel (optional=%s, null-admitting=%s) maps to %s" % (site, f["type"], bool(p.get("optional")), admits_null(p["type"]), want_t))
                else:
                    bad("field-type", site, "field %s has type %s, metamodel type maps to %s" % (site, f["type"], want_t))
            stats["facets"] += 1
            gated = has_cfg_proposed(f["attrs"])
            if gated != bool(p.get("proposed")):
                bad("proposed-gate", site, "field %s is %sfeature-gated but %sproposed in the metamodel" % (site, "" if gated else "not ", "" if p.get("proposed") else "not "))
            for m in re.findall(r"[A-Za-z_][A-Za-z0-9_]*", f["type"]):
                referenced.add(m)

    # ---- structures
    for name, s in mm.structures.items():
        stats["structs"] += 1
        st = img["structs"].get(name)
        if st is None:
            if name == "LSPObject" and name in img["aliases"]:
                continue
            bad("missing-struct", name, "structure %s has no pub struct of that name" % name)
            continue
        stats["facets"] += 1
        if has_cfg_proposed(st["attrs"]) != bool(s.get("proposed")):
            bad("proposed-gate", name, "struct %s feature gate does not match proposed=%s" % (name, bool(s.get("proposed"))))
        check_fields(name, st, mm.flatten(name), "structure", bool(s.get("proposed")))
    # anonymous literal structs discovered through field types
    done = set()
    while mp.literal_structs - done:
        n, key = (mp.literal_structs - done).pop()
        done.add((n, key))
        import json
        t = json.loads(key)
        check_fields(n, img["structs"][n], t["value"]["properties"], "anonymous literal", False)
    # ---- enumerations
    impl_text = {}
    for im in img["impls"]:
        m = re.match(r"impl(?:<[^>]*>)?\s*(Serialize|Deserialize(?:<[^>]*>)?)\s*for\s*(\w+)", im["header"])
        if m:
            impl_text.setdefault(m.group(2), {})["ser" if m.group(1) == "Serialize" else "de"] = im["body"]
    for name, e in mm.enums.items():
        stats["enums"] += 1
        en = img["enums"].get(name)
        if en is None:
            bad("missing-enum", name, "enumeration %s has no pub enum of that name" % name)
            continue
        stats["facets"] += 1
        if has_cfg_proposed(en["attrs"]) != bool(e.get("proposed")):
            bad("proposed-gate", name, "enum %s feature gate does not match proposed=%s" % (name, bool(e.get("proposed"))))
        want = collections.Counter(str(v["value"]) for v in e["values"])
        is_str = e["type"]["name"] == "string"
        got = collections.Counter()
        for v in en["variants"]:
            stats["enum_values"] += 1
            if is_str:
                r = serde_rename(v["attrs"])
                got[r if r is not None else "<variant %s without rename>" % v["name"]] += 1
            else:
                got[str(v["discriminant"]).replace(" ", "") if v["discriminant"] is not None else "<variant %s without discriminant>" % v["name"]] += 1
        stats["facets"] += 1
        if got != want:
            bad("enum-values", name, "enum %s: serde discriminants differ from the metamodel values: missing %s, extra/altered %s" % (
                name, sorted((want - got).elements())[:5], sorted((got - want).elements())[:5]))
        # proposed values
        mv = {str(v["value"]): v for v in e["values"]}
        for v in en["variants"]:
            key = serde_rename(v["attrs"]) if is_str else (str(v["discriminant"]).replace(" ", "") if v["discriminant"] is not None else None)
            if key in mv:
                stats["facets"] += 1
                if has_cfg_proposed(v["attrs"]) != bool(mv[key].get("proposed")):
                    bad("proposed-gate", "%s::%s" % (name, v["name"]), "variant %s::%s feature gate does not match proposed=%s" % (name, v["name"], bool(mv[key].get("proposed"))))
        if not is_str:
            it = impl_text.get(name, {})
            stats["facets"] += 2
            ser = collections.Counter(re.findall(r"%s::\w+=>serializer\.serialize_i32\((-?\d+)\)" % name, it.get("ser", "").replace(" ", "")))
            de = collections.Counter(re.findall(r"(-?\d+)=>Ok\(%s::\w+\)" % name, it.get("de", "").replace(" ", "")))
            if ser != want:
                bad("enum-serialize", name, "Serialize impl of %s writes %s, metamodel values are %s" % (name, sorted(ser)[:8], sorted(want)[:8]))
            if de != want:
                bad("enum-deserialize", name, "Deserialize impl of %s accepts %s, metamodel values are %s" % (name, sorted(de)[:8], sorted(want)[:8]))
            # arms must pair the same variant with the same number in both directions
            pairs_s = set(re.findall(r"%s::(\w+)=>serializer\.serialize_i32\((-?\d+)\)" % name, it.get("ser", "").replace(" ", "")))
            pairs_d = set((b, a) for a, b in re.findall(r"(-?\d+)=>Ok\(%s::(\w+)\)" % name, it.get("de", "").replace(" ", "")))
            decl = set((v["name"], str(v["discriminant"]).replace(" ", "")) for v in en["variants"])
            if pairs_s != decl or pairs_d != decl:
                bad("enum-arms", name, "Serialize/Deserialize arms of %s do not pair each variant with its declared value" % name)
    # ---- aliases
    for name, a in mm.aliases.items():
        stats["aliases"] += 1
        t = a["type"]
        stats["facets"] += 1
        if name in ("LSPAny", "LSPObject", "LSPArray"):
            if name not in img["enums"] and name not in img["aliases"]:
                bad("missing-alias", name, "alias %s has no definition" % name)
            continue
        if t["kind"] == "or":
            en = img["enums"].get(name)
            if en is None:
                bad("missing-alias", name, "or-alias %s has no pub enum of that name" % name)
                continue
            if not is_untagged(en["attrs"]):
                bad("alias-untagged", name, "or-alias enum %s is not #[serde(untagged)]" % name)
            if has_cfg_proposed(en["attrs"]) != bool(a.get("proposed")):
                bad("proposed-gate", name, "alias %s feature gate does not match proposed=%s" % (name, bool(a.get("proposed"))))
            want = collections.Counter()
            for it in t["items"]:
                want["<none>" if is_null_type(it) else norm_type(mp.rs(it, " ".join(v["payload"] or "" for v in en["variants"])))] += 1
            got = collections.Counter()
            for v in en["variants"]:
                got["<none>" if v["payload"] is None else norm_type(strip_box(v["payload"]))] += 1
            if got != want:
                bad("alias-variants", name, "or-alias %s: variants %s, metamodel alternatives map to %s" % (name, sorted(got.elements()), sorted(want.elements())))
        else:
            al = img["aliases"].get(name)
            if al is None:
                bad("missing-alias", name, "alias %s has no pub type of that name" % name)
                continue
            want_t = norm_type(mp.rs(t))
            if norm_type(al["type"]) != want_t:
                bad("alias-type", name, "type %s = %s, metamodel type maps to %s" % (name, al["type"], want_t))
            if has_cfg_proposed(al["attrs"]) != bool(a.get("proposed")):
                bad("proposed-gate", name, "alias %s feature gate does not match proposed=%s" % (name, bool(a.get("proposed"))))
    known_extra = set()
    # ---- methods
    for role, lst, enum_name in (("request", mm.requests, "LSPRequestMethods"), ("notification", mm.notifications, "LSPNotificationMethods")):
        en = img["enums"].get(enum_name)
        renames = collections.Counter(serde_rename(v["attrs"]) for v in (en["variants"] if en else []))
        want = collections.Counter(m["method"] for m in lst)
        stats["facets"] += 1
        if renames != want:
            bad("method-enum", enum_name, "%s: variants renamed to %s missing, %s extra" % (enum_name, sorted((want - renames).elements())[:4], sorted((renames - want).elements(), key=str)[:4]))
        for m in lst:
            stats["methods"] += 1
            if role == "request":
                req, resp, _ = mm.request_class_names(m)
                names = [req, resp]
            else:
                names = [mm.notification_class_name(m)]
            for nm in names:
                stats["facets"] += 1
                st = img["structs"].get(nm)
                if st is None and m.get("typeName") and not nm.endswith("Response") and m["typeName"] in img["structs"]:
                    # the statement does not fix the struct's name: a typeName used verbatim is accepted
                    nm = m["typeName"]
                    known_extra.add(nm)
                    st = img["structs"][nm]
                if st is None:
                    bad("missing-message-struct", m["method"], "%s %s has no message struct %s" % (role, m["method"], nm))
                    continue
                wire = struct_wire_names(st)
                need = {"jsonrpc"}
                if nm.endswith("Response"):
                    need |= {"id"} | ({"result"} if m.get("result") else set())
                else:
                    need |= {"method", "params"} | ({"id"} if role == "request" else set())
                if not need <= set(wire):
                    bad("message-fields", nm, "message struct %s lacks fields %s" % (nm, sorted(need - set(wire))))
                byw = dict(zip(wire, st["fields"]))
                if not nm.endswith("Response") and "method" in byw and norm_type(byw["method"]["type"]) != enum_name:
                    bad("message-fields", nm, "%s.method has type %s instead of %s" % (nm, byw["method"]["type"], enum_name))
                p = m.get("params")
                if not nm.endswith("Response") and isinstance(p, dict) and p["kind"] == "reference" and p["name"] in mm.structures and mm.flatten(p["name"]) and "params" in byw:
                    if norm_type(byw["params"]["type"]) != p["name"]:
                        bad("message-params", nm, "%s.params has type %s, metamodel params are %s" % (nm, byw["params"]["type"], p["name"]))
                if nm.endswith("Response") and m.get("result") and "result" in byw:
                    want_t = norm_type(mp.field_type({"type": m["result"]}))
                    if norm_type(strip_box(byw["result"]["type"])) != want_t:
                        bad("message-result", nm, "%s.result has type %s, metamodel result maps to %s" % (nm, byw["result"]["type"], want_t))
                if has_cfg_proposed(st["attrs"]) and not m.get("proposed"):
                    bad("proposed-gate", nm, "message struct %s is feature-gated but %s is not proposed" % (nm, m["method"]))
                for f in st["fields"]:
                    for mt in re.findall(r"[A-Za-z_][A-Za-z0-9_]*", f["type"]):
                        referenced.add(mt)
    # ---- items of the file that correspond to nothing in the metamodel (informational)
    unmatched = []
    stats["unmatched_items"] = unmatched
    known = set(mm.structures) | set(mm.enums) | set(mm.aliases) | SUPPORT | {n for n, _ in mp.literal_structs}
    for m in mm.requests:
        known |= set(mm.request_class_names(m)[:2])
    for m in mm.notifications:
        known.add(mm.notification_class_name(m))
    for kind in ("structs", "enums", "aliases"):
        for n, it in img[kind].items():
            stats["facets"] += 1
            if n in known or n in known_extra or re.fullmatch(r"OR\d+", n):
                continue
            if kind == "structs" and n in referenced:
                # invented literal struct reached only through alias variants etc.: must at least be referenced
                continue
            # the statement is about what the metamodel requires of the crate, not about helper items the
            # crate may add: unmatched items are reported in the evidence, they are no violation
            unmatched.append("%s %s" % (kind[:-1], n))
    # gated items must be proposed (only those)
    return vs, stats


def generate_lib_rs():
    out, tst = scratch("lspverif-c07-"), scratch("lspverif-c07t-")
    try:
        r = run_cli("rust", out, tst)
        if r.returncode != 0:
            return None, "rust plugin exits %d: %s" % (r.returncode, (r.stderr or r.stdout)[-300:])
        p = os.path.join(out, "lsprotocol", "src", "lib.rs")
        f = rustfmt(p)
        if f.returncode != 0:
            return None, "rustfmt rejects the generated source: %s" % f.stderr[-300:]
        return open(p, encoding="utf-8").read(), None
    finally:
        rm(out), rm(tst)


def second_generation_in_one_process():
    """The property also covers evolved metamodels: generate for the committed model and then, in the
    same interpreter, for an evolved model (bases and mixins gain properties, a new mixin appears) and
    check the relation on the *second* output - anything the plugin remembers from the first run shows."""
    import copy
    import logging
    from .c16 import evolve_for_history
    impl.setup_paths()
    model = impl.generator_module("generator.model")
    plugin = impl.generator_module("generator.plugins.rust")
    base = docs.committed()
    evolved = evolve_for_history(docs.without(base, "textDocument/moniker")[0])
    out = scratch("lspverif-c07b-")
    logging.disable(logging.CRITICAL)
    try:
        for i, d in enumerate((base, evolved)):
            o, t = os.path.join(out, "o%d" % i), os.path.join(out, "t%d" % i)
            os.makedirs(o), os.makedirs(t)
            plugin.generate(model.create_lsp_model([copy.deepcopy(d)]), o, t)
        p = os.path.join(out, "o1", "lsprotocol", "src", "lib.rs")
        f = rustfmt(p)
        if f.returncode != 0:
            return evolved, None, "rustfmt rejects the source generated for the evolved model in the second run: %s" % f.stderr[-200:]
        return evolved, open(p, encoding="utf-8").read(), None
    except Exception as e:  # noqa: BLE001
        return evolved, None, "rust plugin fails on the second (evolved) model in one process: %s: %s" % (type(e).__name__, str(e)[:200])
    finally:
        logging.disable(logging.NOTSET)
        rm(out)


def run(ctx):
    res = Result()
    doc = docs.committed()
    total = {}
    sources = []
    ev_doc, ev_src, ev_err = second_generation_in_one_process()
    if ev_err:
        res.add(Violation(PROP, "plugin", "rust:second-run", ev_err, {"engine": "BISIM", "input": None}))
    else:
        vs, stats = bisim(ev_doc, ev_src)
        for v in vs:
            v.replay["source"] = "second generation in one process (evolved model)"
            v.kind = v.kind
            res.add(Violation(PROP, v.kind, v.site, "second generation in the same process, evolved model: " + v.what, v.replay, extra="second-run"))
        total["second_run_facets"] = stats.get("facets", 0)
    src, err = generate_lib_rs()
    if err:
        res.add(Violation(PROP, "plugin", "rust", err, {"engine": "BISIM", "input": None}))
    else:
        sources.append(("generated", src))
    com = os.path.join(impl.REPO, "packages", "rust", "lsprotocol", "src", "lib.rs")
    if os.path.exists(com):
        sources.append(("committed", open(com, encoding="utf-8").read()))
    for label, s in sources:
        vs, stats = bisim(doc, s)
        for v in vs:
            v.replay["source"] = label
            if label == "committed" and v.sig in res.violations:
                continue
            res.add(v)
        for k, n in stats.items():
            if isinstance(n, list):
                total[k] = sorted(set(total.get(k, [])) | set(n))
            else:
                total[k] = total.get(k, 0) + n
        total[label + "_items"] = stats["items_in_file"]
    n = total.get("facets", 0)
    res.coverage = {
        "states": total.get("structs", 0) + total.get("enums", 0) + total.get("aliases", 0) + total.get("methods", 0) + total.get("fields", 0),
        "transitions": max(n, 1), "traces_validated_against_impl": len(sources), "evaluations": max(n, 1),
        "distinct_nontrivial": total.get("fields", 0),
        "rule": "product walk metamodel x parsed lib.rs (plugin output of the current tree after rustfmt, and the committed copy): every structure "
                "(serde field-name set, mapped type, Option, proposed gate per field), every enumeration (serde discriminants as multiset, "
                "Serialize/Deserialize arms of integer enums), every alias (untagged enum variants / type), every method (message structs, "
                "method-enum rename), reverse walk over every item of the file",
        **total, "exhaustive": True,
        "samples": [{"struct": "Position", "metamodel_fields": ["line", "character"]}],
    }
    res.assumptions = ["own token-level parser for the emitted Rust subset (item counts cross-checked: 551 structs / 68 enums / 8 aliases); the crate cannot be compiled offline",
                       "open enumerations as flagged in the metamodel"]
    return res


def replay(ctx, doc):
    r = run(ctx)
    return "; ".join(v.what for v in r.violations.values() if v.site == doc.get("site"))[:500] or None
