"""C18 - model loading is lossless, merge is concatenation, equality, schema gate."""
from __future__ import annotations

import copy
import itertools
import json
import os
import sys
import types as pytypes

import attrs

from .. import impl, docs, schemawalk
from ..genrun import scratch, rm
from ..runner import Result, Violation

PROP = "C18"
ANNOT = {"documentation", "since", "sinceTags", "proposed", "deprecated", "typeName", "supportsCustomValues"}


# ------------------------------------------------------------------------------ (a) read-back
def back(o):
    if attrs.has(type(o)):
        d = {}
        for a in attrs.fields(type(o)):
            if a.name == "id_":
                continue
            v = getattr(o, a.name)
            if v is None:
                continue
            d[a.name] = back(v)
        return d
    if isinstance(o, (list, tuple)):
        return [back(x) for x in o]
    return o


def diff(a, b, path=""):
    """Differences document a vs read-back b ([] == absent for extends/mixins)."""
    out = []
    if isinstance(a, dict) and isinstance(b, dict):
        for k in a:
            if k not in b:
                if k in ("extends", "mixins") and a[k] == []:
                    continue
                out.append((path + "." + k, "lost"))
            else:
                out += diff(a[k], b[k], path + "." + k)
        for k in b:
            if k not in a:
                if k in ("extends", "mixins") and b[k] == []:
                    continue
                out.append((path + "." + k, "invented"))
    elif isinstance(a, list) and isinstance(b, list):
        if len(a) != len(b):
            out.append((path, "length %d -> %d" % (len(a), len(b))))
        for i, (x, y) in enumerate(zip(a, b)):
            out += diff(x, y, path + "[]")
    elif a != b or type(a) is not type(b):
        out.append((path, "value %r -> %r" % (a, b)))
    return out


SAMPLE_VALUES = {
    "documentation": "doc text", "since": "3.18.0", "sinceTags": ["3.17.0", "3.18.0"], "proposed": True,
    "deprecated": "use something else", "typeName": "VerifTypeName", "supportsCustomValues": True, "optional": True,
    "registrationMethod": "verif/registration", "extends": [{"kind": "reference", "name": "Position"}],
    "mixins": [{"kind": "reference", "name": "Position"}],
    "params": {"kind": "reference", "name": "Position"}, "partialResult": {"kind": "reference", "name": "Position"},
    "errorData": {"kind": "reference", "name": "Position"}, "registrationOptions": {"kind": "reference", "name": "Position"},
}
TYPE_VARIANTS = [
    ("base", {"kind": "base", "name": "RegExp"}),
    ("reference", {"kind": "reference", "name": "Position"}),
    ("array", {"kind": "array", "element": {"kind": "base", "name": "string"}}),
    ("map", {"kind": "map", "key": {"kind": "base", "name": "integer"}, "value": {"kind": "base", "name": "string"}}),
    ("map-refkey", {"kind": "map", "key": {"kind": "reference", "name": "ChangeAnnotationIdentifier"}, "value": {"kind": "reference", "name": "Position"}}),
    ("and", {"kind": "and", "items": [{"kind": "reference", "name": "Position"}, {"kind": "reference", "name": "Range"}]}),
    ("or", {"kind": "or", "items": [{"kind": "base", "name": "string"}, {"kind": "base", "name": "null"}]}),
    ("tuple", {"kind": "tuple", "items": [{"kind": "base", "name": "uinteger"}, {"kind": "base", "name": "string"}]}),
    ("or-single-item", {"kind": "or", "items": [{"kind": "base", "name": "string"}]}),
    ("and-single-item", {"kind": "and", "items": [{"kind": "reference", "name": "Position"}]}),
    ("nested-single-item", {"kind": "array", "element": {"kind": "or", "items": [{"kind": "reference", "name": "Position"}]}}),
    ("tuple-single-item", {"kind": "tuple", "items": [{"kind": "base", "name": "string"}]}),
    ("empty-or", {"kind": "or", "items": []}),
    ("literal", {"kind": "literal", "value": {"properties": [{"name": "a", "type": {"kind": "base", "name": "string"}, "optional": True}]}}),
    ("literal-annotated", {"kind": "literal", "value": {"properties": [], "documentation": "d", "since": "3.18.0", "proposed": True, "deprecated": "x", "sinceTags": ["3.18.0"]}}),
    ("stringLiteral", {"kind": "stringLiteral", "value": "lit"}),
    ("integerLiteral", {"kind": "integerLiteral", "value": 1}),
    ("booleanLiteral", {"kind": "booleanLiteral", "value": True}),
    ("params-list", None),
]


def schema_valid_variants(schema, base):
    """Single schema-valid additions: for every definition x optional property, the first instance
    lacking it gets a sample value; every kind of type expression at a property type position."""
    out = [("identity", base)]
    insts = schemawalk.instances(schema, base)
    seen = set()
    for path, name, s in insts:
        for k in s.get("properties", {}):
            if k in s.get("required", []) or (name, k) in seen or k not in SAMPLE_VALUES:
                continue
            node = schemawalk.get(base, path)
            if k in node:
                continue
            seen.add((name, k))
            out.append(("%s.%s" % (name, k), schemawalk.edited(base, path, lambda n, k=k: n.__setitem__(k, copy.deepcopy(SAMPLE_VALUES[k])))))
    # every type kind as the type of a new property of the first structure
    for label, t in TYPE_VARIANTS:
        d = copy.deepcopy(base)
        if label == "params-list":
            d["requests"][0]["params"] = [{"kind": "base", "name": "string"}, {"kind": "reference", "name": "Position"}]
        else:
            d["structures"][0]["properties"].append({"name": "verifProp", "type": copy.deepcopy(t), "optional": True})
        out.append(("type:" + label, d))
    return out


# ------------------------------------------------------------------------------ (c) equality edits
def nodes(j, path=()):
    yield path, j
    if isinstance(j, dict):
        for k, v in j.items():
            if k in ANNOT:
                continue
            yield from nodes(v, path + (k,))
    elif isinstance(j, list):
        for i, v in enumerate(j):
            yield from nodes(v, path + (i,))


def setp(j, path, val):
    j = copy.deepcopy(j)
    cur = j
    for p in path[:-1]:
        cur = cur[p]
    cur[path[-1]] = val
    return j


def delp(j, path):
    j = copy.deepcopy(j)
    cur = j
    for p in path[:-1]:
        cur = cur[p]
    del cur[path[-1]]
    return j


def structural_edits(d):
    for path, v in nodes(d):
        if not path:
            continue
        last = path[-1]
        if isinstance(v, str) and last != "kind":
            yield "rename:" + str(last), setp(d, path, v + "X")
        if isinstance(v, bool) and last == "optional":
            yield "toggle-optional", setp(d, path, not v)
        if isinstance(v, int) and not isinstance(v, bool):
            yield "number", setp(d, path, v + 1)
        if isinstance(v, list) and len(v) >= 1 and isinstance(last, str):
            yield "drop-last:" + last, setp(d, path, v[:-1])
            yield "duplicate-last:" + last, setp(d, path, v + [v[-1]])
            if len(v) >= 2 and v[0] != v[1]:
                yield "swap:" + last, setp(d, path, [v[1], v[0]] + v[2:])
        if isinstance(v, dict) and v.get("kind") == "base" and v.get("name") == "string" and last != "key":
            yield "retype", setp(d, path, {"kind": "base", "name": "boolean"})
        if isinstance(v, dict) and v.get("kind") == "reference" and last not in ("key",) and not (len(path) >= 2 and path[-2] in ("extends", "mixins")):
            yield "reference-to-base", setp(d, path, {"kind": "base", "name": "string"})
        if last == "optional" and v is True:
            yield "drop-optional", delp(d, path)
        if isinstance(v, dict) and "name" in v and "type" in v and "optional" not in v and "kind" not in v and len(path) >= 2 and path[-2] == "properties":
            yield "make-optional", setp(d, path + ("optional",), True)
        if last in ("extends", "mixins") and isinstance(v, list) and v:
            yield "drop-" + last, delp(d, path)
        if last == "messageDirection":
            yield "direction", setp(d, path, "both" if v != "both" else "clientToServer")
        if last in ("params", "result", "partialResult", "registrationOptions", "errorData", "registrationMethod") and isinstance(path[0], str) is False:
            pass
    for f in ("params", "partialResult", "registrationOptions", "errorData", "registrationMethod"):
        if f in d:
            yield "drop-" + f, delp(d, (f,))


# ------------------------------------------------------------------------------ (d) gate
class Spy:
    def __init__(self):
        self.calls = []


def run_gate(gen_main, plugin_modules, spy, doc_path, plugin, out_dir, test_dir):
    """-> (failed: bool, plugin_called: bool, wrote: list)"""
    spy.calls.clear()
    failed = False
    try:
        paths = list(doc_path) if isinstance(doc_path, (list, tuple)) else [doc_path]
        gen_main(["--model"] + paths + ["--plugin", plugin, "--output-dir", out_dir, "--test-dir", test_dir])
    except SystemExit as e:
        failed = e.code not in (0, None)
    except BaseException:  # noqa: BLE001
        failed = True
    wrote = os.listdir(out_dir) + os.listdir(test_dir)
    return failed, bool(spy.calls), wrote


def gate_cases(schema, val, base, thorough):
    """Deterministic list of (definition, path, rule, description, edited document)."""
    insts = schemawalk.instances(schema, base)
    by_def = {}
    for path, name, s in insts:
        by_def.setdefault(name, []).append((path, s))
    for name, lst in sorted(by_def.items()):
        picks = [lst[0]] if len(lst) == 1 else [lst[0], lst[len(lst) // 2], lst[-1]]
        if not thorough and len(picks) > 1:
            picks = [picks[0], picks[-1]]
        for path, s in picks:
            for rule, desc, fn in schemawalk.violations_for(schema, path, name, s):
                d = schemawalk.edited(base, path, fn)
                if d == base:
                    continue
                yield name, path, rule, desc, d


def _gate_worker(args):
    base, wid, W, thorough = args
    import logging
    logging.disable(logging.CRITICAL)
    gmain = impl.generator_module("generator.__main__")
    schema, rooted = schemawalk.load_schema()
    val = schemawalk.validator(rooted)
    spy = Spy()
    spy_mod = pytypes.ModuleType("lspverif_spy_plugin")
    spy_mod.generate = lambda spec, out, tst: spy.calls.append(("spy", out))
    sys.modules["lspverif_spy_plugin"] = spy_mod
    for p in ("python", "rust", "dotnet", "testdata"):
        mod = impl.generator_module("generator.plugins." + p)
        mod.generate = (lambda spec, out, tst, p=p: spy.calls.append((p, out)))
    plugins = ["python", "rust", "dotnet", "testdata", "lspverif_spy_plugin"]
    out = {"documents": 0, "runs": 0, "rules": {}, "bad": []}
    work = scratch("lspverif-c18-")
    try:
        if wid == 0:
            # sanity: on the valid base document every plugin *is* reached (the spy works)
            okp = docs.write(base, os.path.join(work, "ok.json"))
            for p in plugins:
                o, t = os.path.join(work, "o"), os.path.join(work, "t")
                os.makedirs(o), os.makedirs(t)
                failed, called, wrote = run_gate(gmain.main, None, spy, okp, p, o, t)
                rm(o), rm(t)
                if failed or not called:
                    out["bad"].append(("gate-selfcheck", p, "valid base document: plugin %s was not reached (failed=%s) - the spy is not observing" % (p, failed), {}))
        for i, (name, path, rule, desc, d) in enumerate(gate_cases(schema, val, base, thorough)):
            if i % W != wid:
                continue
            if not any(True for _ in val.iter_errors(d)):
                continue                # the edit did not break the schema: not a gate case
            out["documents"] += 1
            key = "%s/%s" % (name, rule)
            out["rules"][key] = out["rules"].get(key, 0) + 1
            # history: the same path held a valid model in an earlier run of this process
            same = os.path.join(work, "model.json")
            docs.write(base, same)
            o, t = os.path.join(work, "o"), os.path.join(work, "t")
            os.makedirs(o), os.makedirs(t)
            run_gate(gmain.main, None, spy, same, "lspverif_spy_plugin", o, t)
            rm(o), rm(t)
            bp = docs.write(d, same)
            for p in plugins:
                o, t = os.path.join(work, "o"), os.path.join(work, "t")
                os.makedirs(o), os.makedirs(t)
                failed, called, wrote = run_gate(gmain.main, None, spy, bp, p, o, t)
                rm(o), rm(t)
                out["runs"] += 1
                if called or not failed or wrote:
                    out["bad"].append(("gate-open", key,
                                       "schema-violating model (%s at %s: %s) reaches plugin %s (command failed=%s, plugin called=%s, wrote=%s)" % (
                                           name, "/".join(map(str, path)), desc, p, failed, called, wrote),
                                       {"definition": name, "rule": rule, "path": [str(x) for x in path], "edit": desc, "plugin": p}))
            # configuration: the same gate with assertions stripped (python -O / PYTHONOPTIMIZE=1): real CLI, new process
            import subprocess
            from ..genrun import PY
            o, t = os.path.join(work, "o"), os.path.join(work, "t")
            os.makedirs(o), os.makedirs(t)
            env = dict(os.environ)
            env.update({"PYTHONPATH": impl.REPO, "PYTHONOPTIMIZE": "1", "PYTHONDONTWRITEBYTECODE": "1"})
            pr = subprocess.run([PY, "-O", "-m", "generator", "--plugin", "python", "--model", bp, "--output-dir", o, "--test-dir", t],
                                cwd=impl.REPO, env=env, capture_output=True, text=True, timeout=300)
            wrote = os.listdir(o) + os.listdir(t)
            rm(o), rm(t)
            out["runs"] += 1
            out["runs_optimized"] = out.get("runs_optimized", 0) + 1
            if pr.returncode == 0 or wrote:
                out["bad"].append(("gate-open", key, "with assertions stripped (python -O) the schema-violating model (%s at %s: %s) is not stopped: exit %d, wrote %s" % (
                    name, "/".join(map(str, path)), desc, pr.returncode, wrote[:3]), {"definition": name, "rule": rule, "edit": desc, "interpreter": "python -O"}))
            # the violating document at every position of a model *list* (first, last, middle) next to valid files
            okx = os.path.join(work, "ok_ext.json")
            if not os.path.exists(okx):
                docs.write({"metaData": dict(base["metaData"]), "requests": [], "notifications": [], "structures": [
                    {"name": "VerifGateExt", "properties": [{"name": "value", "type": {"kind": "base", "name": "string"}}]}],
                    "enumerations": [], "typeAliases": []}, okx)
                docs.write(base, os.path.join(work, "ok_base.json"))
            okb = os.path.join(work, "ok_base.json")
            for pos, lst in (("first", [bp, okx]), ("last", [okb, bp]), ("middle", [okb, bp, okx])):
                o, t = os.path.join(work, "o"), os.path.join(work, "t")
                os.makedirs(o), os.makedirs(t)
                failed, called, wrote = run_gate(gmain.main, None, spy, lst, "lspverif_spy_plugin", o, t)
                rm(o), rm(t)
                out["runs"] += 1
                if called or not failed or wrote:
                    out["bad"].append(("gate-open", key,
                                       "schema-violating model file (%s at %s: %s) as the %s file of a model list reaches the plugin (command failed=%s, plugin called=%s, wrote=%s)" % (
                                           name, "/".join(map(str, path)), desc, pos, failed, called, wrote),
                                       {"definition": name, "rule": rule, "path": [str(x) for x in path], "edit": desc, "plugin": "spy", "position": pos}))
    finally:
        rm(work)
    return out


def run(ctx):
    res = Result()
    impl.setup_paths()
    import logging
    logging.disable(logging.CRITICAL)
    model = impl.generator_module("generator.model")
    gmain = impl.generator_module("generator.__main__")
    schema, rooted = schemawalk.load_schema()
    val = schemawalk.validator(rooted)
    committed = docs.committed()
    base = docs.small_base(committed)
    stats = {"readback_documents": 0, "merge_lists": 0, "equality_comparisons": 0, "equality_declarations": 0,
             "gate_documents": 0, "gate_runs": 0, "variants_not_schema_valid": 0}
    samples = []

    def bad(kind, site, what, replay=None, extra=""):
        r = {"engine": "HIST", "part": kind, "site": site, "input": None}
        r.update(replay or {})
        res.add(Violation(PROP, kind, site, what, r, extra=extra))

    # ---- (a) lossless load, on the committed model and on every single schema-valid addition
    variants = [("committed", committed)] + [(l, d) for l, d in schema_valid_variants(schema, base)]
    # annotation strings a loader might be tempted to "clean up": other line endings, tabs, outer blanks, empty, non-ASCII
    for i, txt in enumerate(["line one\r\nline two", "a\rb", "tab\there", "  padded  ", "", "\u00e9\u2028x", "trailing newline\n", "**/*"]):
        dv = copy.deepcopy(base)
        st = dv["structures"][0]
        st["documentation"] = txt
        st["deprecated"] = txt
        if st.get("properties"):
            st["properties"][0]["documentation"] = txt
        if dv.get("enumerations"):
            dv["enumerations"][0]["documentation"] = txt
            dv["enumerations"][0]["values"][0]["documentation"] = txt
        if dv.get("requests"):
            dv["requests"][0]["documentation"] = txt
        variants.append(("annotation-text-%d" % i, dv))
    loadable = {}
    for label, d in variants:
        if any(True for _ in val.iter_errors(d)):
            stats["variants_not_schema_valid"] += 1
            continue
        stats["readback_documents"] += 1
        try:
            m = model.create_lsp_model([copy.deepcopy(d)])
        except Exception as e:  # noqa: BLE001
            bad("load-fails", label, "schema-valid document (%s) does not load: %s: %s" % (label, type(e).__name__, str(e)[:120]),
                {"document_variant": label}, extra=type(e).__name__)
            continue
        loadable[label] = d
        df = diff(d, back(m))
        if df:
            bad("not-lossless", label, "read-back of document (%s) differs: %s" % (label, df[:3]), {"document_variant": label, "diff": [list(x) for x in df[:10]]})
    samples.append({"part": "read-back", "variants": [l for l, _ in variants][:12]})

    # ---- (b) merge = concatenation, all lists of length <= 3 over four documents
    d_small = base
    d_s2 = docs.slice_model(committed, methods=("textDocument/moniker",), names=())
    d_s3 = docs.slice_model(committed, methods=("workspace/didChangeWatchedFiles", "window/showMessage"), names=("FoldingRange",))
    d_ev = loadable.get("Structure.documentation", base)
    pool = [("small", d_small), ("moniker", d_s2), ("watched", d_s3), ("evolved", d_ev)]
    if ctx.thorough:
        pool[0] = ("committed", committed)
    maxlen = 3
    for n in range(1, maxlen + 1):
        for combo in itertools.product(pool, repeat=n):
            stats["merge_lists"] += 1
            label = "+".join(l for l, _ in combo)
            try:
                m = model.create_lsp_model([copy.deepcopy(d) for _, d in combo])
            except Exception as e:  # noqa: BLE001
                bad("merge-raises", label, "create_lsp_model(%s) raises %s: %s" % (label, type(e).__name__, str(e)[:100]), {"documents": label})
                continue
            expect = copy.deepcopy(combo[0][1])
            for _, d in combo[1:]:
                for key in ("requests", "notifications", "structures", "enumerations", "typeAliases"):
                    expect[key] = expect[key] + copy.deepcopy(d[key])
            df = diff(expect, back(m))
            if df:
                bad("merge-differs", "merge", "create_lsp_model(%s) is not the first model extended in order: %s" % (label, df[:3]), {"documents": label})
    samples.append({"part": "merge", "documents": [l for l, _ in pool], "max_length": maxlen})

    # ---- (c) equality
    kinds = [("structures", model.Structure), ("enumerations", model.Enum), ("typeAliases", model.TypeAlias),
             ("requests", model.Request), ("notifications", model.Notification)]
    eq_doc = committed if ctx.thorough else committed
    step = 1 if ctx.thorough else 3          # quick: every third declaration (still all five kinds)
    others = [None, 1, "x", object()]
    for key, cls in kinds:
        decls = eq_doc[key]
        for idx, d in enumerate(decls):
            if idx % step and key == "structures":
                continue
            stats["equality_declarations"] += 1
            name = d.get("name") or d.get("method")
            try:
                a = cls(**copy.deepcopy(d))
                b = cls(**copy.deepcopy(d))
            except Exception as e:  # noqa: BLE001
                bad("load-fails", "%s:%s" % (key, name), "declaration does not load: %r" % (e,))
                continue
            stats["equality_comparisons"] += 1
            try:
                r = a == b
                if r is not True:
                    bad("equal-loads-unequal", key, "two loads of %s %s compare %r" % (key, name, r), {"declaration": name})
            except Exception as e:  # noqa: BLE001
                bad("eq-raises", key, "comparing two loads of %s %s raises %s: %s" % (key, name, type(e).__name__, e), {"declaration": name}, extra=type(e).__name__)
            for o in others + [kinds[(i + 1) % len(kinds)][1] for i, (k2, _) in enumerate(kinds) if k2 == key]:
                stats["equality_comparisons"] += 1
                try:
                    if (a == o) is not False or (a != o) is not True:
                        bad("equal-to-unrelated", key, "%s %s == %r" % (key, name, o))
                except Exception as e:  # noqa: BLE001
                    bad("eq-raises", key, "comparing %s %s with %r raises %s" % (key, name, o, type(e).__name__), extra=type(e).__name__)
            for ek, d2 in structural_edits(d):
                try:
                    b2 = cls(**d2)
                except Exception:  # noqa: BLE001 - the edit made the declaration unloadable: no verdict
                    continue
                stats["equality_comparisons"] += 1
                try:
                    r = a == b2
                except Exception as e:  # noqa: BLE001
                    bad("eq-raises", key, "comparing %s %s with its edit %s raises %s: %s" % (key, name, ek, type(e).__name__, e),
                        {"declaration": name, "edit": ek}, extra=type(e).__name__)
                    continue
                if r is not False:
                    bad("different-compare-equal", "%s/%s" % (key, ek.split(":")[0]), "%s %s and its structural edit %s compare equal" % (key, name, ek),
                        {"declaration": name, "edit": ek}, extra=ek)
    stats["equality_comparisons"] += 1
    try:
        m1 = model.create_lsp_model([copy.deepcopy(committed)])
        m2 = model.create_lsp_model([copy.deepcopy(committed)])
        if (m1 == m2) is not True:
            bad("equal-loads-unequal", "LSPModel", "two loads of the committed model compare unequal")
        if (m1 == model.create_lsp_model([copy.deepcopy(base)])) is not False:
            bad("different-compare-equal", "LSPModel", "committed model equals its small slice")
        for o in others:
            if (m1 == o) is not False:
                bad("equal-to-unrelated", "LSPModel", "model == %r" % (o,))
    except Exception as e:  # noqa: BLE001
        bad("eq-raises", "LSPModel", "comparing two loads of the committed model raises %s: %s" % (type(e).__name__, e), extra=type(e).__name__)
    # whole-model comparisons where the only difference is at the END of a top-level section
    try:
        mb = model.create_lsp_model([copy.deepcopy(base)])
        for key in ("requests", "notifications", "structures", "enumerations", "typeAliases"):
            for label, edit in (("last declaration of %s dropped" % key, lambda d, k=key: d[k].pop()),
                                ("a declaration appended to %s" % key, lambda d, k=key: d[k].append(copy.deepcopy(d[k][0])))):
                d2 = copy.deepcopy(base)
                edit(d2)
                stats["equality_comparisons"] += 2
                try:
                    m2 = model.create_lsp_model([d2])
                    if (mb == m2) is not False or (m2 == mb) is not False:
                        bad("different-compare-equal", "LSPModel/section-end", "models that differ only by %s compare equal" % label, {"edit": label})
                except Exception as e:  # noqa: BLE001
                    bad("eq-raises", "LSPModel", "comparing models (%s) raises %s" % (label, type(e).__name__), extra=type(e).__name__)
        # base alone vs base extended by a second file
        stats["equality_comparisons"] += 1
        mx = model.create_lsp_model([copy.deepcopy(base), copy.deepcopy(d_s2)])
        if (mb == mx) is not False or (mx == mb) is not False:
            bad("different-compare-equal", "LSPModel/section-end", "a model and the same model extended by a second file compare equal", {})
    except Exception as e:  # noqa: BLE001
        bad("eq-raises", "LSPModel", "whole-model comparison raises %s: %s" % (type(e).__name__, e), extra=type(e).__name__)
    # loading must not alter the parsed documents, and loading the same parsed documents again gives an equal model
    try:
        empty_first = copy.deepcopy(base)
        empty_first["notifications"] = []
        empty_first["typeAliases"] = list(empty_first["typeAliases"])
        ext = copy.deepcopy(d_s3)
        for docs_list, label in (([empty_first, ext], "first file with an empty notifications section + second file"), ([copy.deepcopy(base)], "single file")):
            before = copy.deepcopy(docs_list)
            stats["merge_lists"] += 2
            ma = model.create_lsp_model(docs_list)
            if docs_list != before:
                bad("load-alters-document", "create_lsp_model", "create_lsp_model altered the parsed input documents (%s)" % label, {"documents": label})
            mb2 = model.create_lsp_model(docs_list)
            expect = copy.deepcopy(before[0])
            for d in before[1:]:
                for key in ("requests", "notifications", "structures", "enumerations", "typeAliases"):
                    expect[key] = expect[key] + copy.deepcopy(d[key])
            df = diff(expect, back(mb2))
            if df:
                bad("merge-differs", "merge", "loading the same parsed documents a second time (%s) gives a different model: %s" % (label, df[:3]), {"documents": label})
            if (ma == mb2) is not True:
                bad("equal-loads-unequal", "LSPModel", "two loads of the same parsed documents (%s) compare unequal" % label, {"documents": label})
    except Exception as e:  # noqa: BLE001
        bad("merge-raises", "repeat", "repeated load raises %s: %s" % (type(e).__name__, e))
    samples.append({"part": "equality", "declarations": stats["equality_declarations"]})

    # ---- (d) gate (documents distributed over worker processes; each worker has its own scratch directory)
    import multiprocessing as mp
    gate_base = docs.slice_model(committed, methods=("textDocument/colorPresentation", "shutdown", "exit", "workspace/didChangeWorkspaceFolders"),
                                 names=("ParameterInformation", "SemanticTokensOptions", "CreateFile", "FoldingRange", "WorkspaceEdit"))
    W = max(1, min(ctx.workers, 16))
    with mp.get_context("fork").Pool(W) as pool:
        parts = pool.map(_gate_worker, [(gate_base, w, W, ctx.thorough) for w in range(W)])
    rules_seen = {}
    for part in parts:
        stats["gate_documents"] += part["documents"]
        stats["gate_runs"] += part["runs"]
        stats["gate_runs_optimized_interpreter"] = stats.get("gate_runs_optimized_interpreter", 0) + part.get("runs_optimized", 0)
        for k, v in part["rules"].items():
            rules_seen[k] = rules_seen.get(k, 0) + v
        for kind, site, what, rp in part["bad"]:
            bad(kind, site, what, rp)
    stats["gate_rule_classes"] = len(rules_seen)
    samples.append({"part": "gate", "definition_x_rule_classes": sorted(rules_seen)[:12]})
    logging.disable(logging.NOTSET)
    n = stats["readback_documents"] + stats["merge_lists"] + stats["equality_comparisons"] + stats["gate_runs"]
    res.coverage = {
        "states": stats["readback_documents"] + stats["merge_lists"] + stats["equality_declarations"] + stats["gate_documents"],
        "transitions": n, "traces_validated_against_impl": n, "evaluations": n,
        "distinct_nontrivial": stats["gate_documents"] + stats["readback_documents"],
        "rule": "(a) committed model + every single schema-valid addition (definition x optional property, every kind of type expression) read back; "
                "(b) all lists of length <=3 over 4 documents merged; (c) every declaration (quick: every third structure) x every single structural "
                "edit at every JSON node: equal loads equal, edited loads unequal, no comparison raises; (d) every schema definition x rule kind x "
                "site class (first/middle/last instance) single edit rejected by the rooted schema x 5 plugins (4 real with recording wrappers + spy "
                "module): command must fail, no plugin called, nothing written - the violating document is written to a path that held a valid "
                "model in the previous run of the same process, and is also given as the first / last / middle file of a model list next to valid files; every violating document also "
                "through the real CLI under python -O (assertions stripped); whole-model equality under edits at the end of each section; repeated loads of the "
                "same parsed documents (not altered, equal models)",
        **stats, "exhaustive": True, "samples": samples,
    }
    res.assumptions = ["'structural' excludes documentation/since/sinceTags/proposed/deprecated/typeName/supportsCustomValues (no verdict on them)",
                       "gate: real plugins are observed through recording wrappers placed on their public generate entry point"]
    return res


def replay(ctx, doc):
    r = run(ctx)
    return "; ".join(v.what for v in r.violations.values() if v.site == doc.get("site"))[:500] or None
