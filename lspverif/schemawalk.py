"""Schema-directed walk of a metamodel document: which node is an instance of which definition of
lsp.schema.json, and single edits that keep / break schema validity (used by C18 and C06)."""
from __future__ import annotations

import copy
import json

from . import impl


def load_schema():
    with open(impl.SCHEMA_PATH, encoding="utf-8") as f:
        s = json.load(f)
    rooted = dict(s)
    rooted["$ref"] = "#/definitions/MetaModel"
    return s, rooted


def validator(rooted):
    import jsonschema
    cls = jsonschema.validators.validator_for(rooted)
    return cls(rooted)


def _deref(schema, s):
    while "$ref" in s and len(s) >= 1 and s["$ref"].startswith("#/definitions/"):
        name = s["$ref"].split("/")[-1]
        return name, schema["definitions"][name]
    return None, s


def instances(schema, doc, defname="MetaModel"):
    """Yield (path, definition name, subschema) for every node of doc that is an instance of a
    named object definition, following properties / items / anyOf (branch chosen by `kind`)."""
    out = []

    def visit(node, s, path):
        name, s2 = _deref(schema, s)
        if "anyOf" in s2:
            # choose the branch
            for br in s2["anyOf"]:
                bn, bs = _deref(schema, br)
                if bs.get("type") == "array":
                    if isinstance(node, list):
                        visit(node, bs, path)
                        return
                    continue
                if "anyOf" in bs:
                    if isinstance(node, dict):
                        visit(node, br, path)
                        return
                    continue
                kc = bs.get("properties", {}).get("kind", {}).get("const")
                if isinstance(node, dict) and kc is not None and node.get("kind") == kc:
                    visit(node, br, path)
                    return
            return
        if s2.get("type") == "object" and isinstance(node, dict):
            if name:
                out.append((path, name, s2))
            for k, ps in s2.get("properties", {}).items():
                if k in node:
                    visit(node[k], ps, path + (k,))
        elif s2.get("type") == "array" and isinstance(node, list):
            for i, x in enumerate(node):
                visit(x, s2.get("items", {}), path + (i,))

    visit(doc, {"$ref": "#/definitions/" + defname}, ())
    return out


def get(doc, path):
    cur = doc
    for p in path:
        cur = cur[p]
    return cur


def edited(doc, path, fn):
    d = copy.deepcopy(doc)
    if not path:
        fn(d)
        return d
    cur = d
    for p in path[:-1]:
        cur = cur[p]
    node = cur[path[-1]]
    r = fn(node)
    if r is not None:
        cur[path[-1]] = r
    return d


def _wrong_type_value(ps, schema):
    _, s = _deref(schema, ps)
    t = s.get("type")
    if "anyOf" in s:
        return 5
    if t == "string":
        return 5
    if t in ("number", "integer"):
        return "x"
    if t == "boolean":
        return "yes"
    if t == "array":
        return {"not": "a list"}
    if t == "object":
        return [1]
    if isinstance(t, list):
        return {"neither": 1}
    if "enum" in s:
        return 5
    return None


def violations_for(schema, path, name, s):
    """Single edits at one instance that must break schema validity: (rule, description, fn)."""
    out = []
    for r in s.get("required", []):
        out.append(("missing-required", "remove required key %s" % r, (lambda node, r=r: node.pop(r, None) and None)))
    if s.get("additionalProperties") is False:
        out.append(("undeclared-key", "add undeclared key zzVerifBogus", (lambda node: node.__setitem__("zzVerifBogus", 1))))
    for k, ps in s.get("properties", {}).items():
        _, ps2 = _deref(schema, ps)
        if "const" in ps2:
            out.append(("const", "set %s to a non-constant" % k, (lambda node, k=k: node.__setitem__(k, "bogus"))))
            continue
        if "enum" in ps2:
            out.append(("enum", "set %s outside its enum" % k, (lambda node, k=k: node.__setitem__(k, "bogusValue") if k in node else None)))
        if "anyOf" in ps2:
            out.append(("anyOf", "set %s to a value matching no branch" % k,
                        (lambda node, k=k: node.__setitem__(k, {"kind": "bogus"}) if k in node else None)))
        w = _wrong_type_value(ps, schema)
        if w is not None:
            out.append(("wrong-type", "set %s to a value of the wrong JSON type" % k,
                        (lambda node, k=k, w=w: node.__setitem__(k, w) if k in node else None)))
    return out
