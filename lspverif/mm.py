"""MM - reference model of the LSP metamodel (DESIGN 2.1).

Reads the raw JSON of a metamodel document (never through generator/model.py or the Python
plugin) and gives the semantics the properties talk about: flattening, null-admittance,
validity of a JSON value for a type (protocol and strict readings), the serialisation normal
form, envelope declarations, and the documented naming rules.
"""
from __future__ import annotations

import json
import keyword
import re

INT_MIN, INT_MAX = -(2**31), 2**31 - 1
UINT_MIN, UINT_MAX = 0, 2**31 - 1

STRING_BASES = ("string", "DocumentUri", "URI", "Uri", "RegExp")
ANY_ALIASES = ("LSPAny", "LSPObject", "LSPArray")


def ref(name):
    return {"kind": "reference", "name": name}


def base(name):
    return {"kind": "base", "name": name}


def is_null_type(t):
    return t["kind"] == "base" and t["name"] == "null"


def admits_null(t):
    """Syntactic `T | null`: an `or` with a null item (DESIGN 2.1)."""
    return t["kind"] == "or" and any(is_null_type(i) for i in t["items"])


def is_literal_type(t):
    return t["kind"] == "stringLiteral"


def is_int(v):
    return isinstance(v, int) and not isinstance(v, bool)


def is_num(v):
    return isinstance(v, (int, float)) and not isinstance(v, bool)


def json_eq(a, b):
    """Equality of JSON values where bool is never equal to a number and int==float
    numerically (the wire does not distinguish 1 and 1.0)."""
    if isinstance(a, bool) or isinstance(b, bool):
        return a is b
    if is_num(a) and is_num(b):
        return a == b
    if isinstance(a, (list, tuple)) and isinstance(b, (list, tuple)):
        return len(a) == len(b) and all(json_eq(x, y) for x, y in zip(a, b))
    if isinstance(a, dict) and isinstance(b, dict):
        return a.keys() == b.keys() and all(json_eq(a[k], b[k]) for k in a)
    if type(a) is not type(b):
        return False
    return a == b


# ------------------------------------------------------------------------------------------
# naming rules (written from the documentation, not copied from the generator)

_SNAKE_1 = re.compile(r"(?<=[a-z0-9])(?=[A-Z])")
_SNAKE_2 = re.compile(r"(?<=[A-Z])(?=[A-Z][a-z])")


def snake(name):
    """wire name -> Python attribute: snake_case, trailing underscore for keywords."""
    s = _SNAKE_2.sub("_", _SNAKE_1.sub("_", name)).lower()
    return s + "_" if keyword.iskeyword(s) else s


def camel_of_attr(attr):
    """Python attribute -> wire name (strip the keyword underscore, snake -> camel)."""
    a = attr[:-1] if attr.endswith("_") else attr
    parts = a.split("_")
    return parts[0] + "".join(p[:1].upper() + p[1:] for p in parts[1:])


def upper_camel(name):
    return name[:1].upper() + name[1:]


def method_to_class(method):
    """`textDocument/didSave` -> `TextDocumentDidSave`, `$/progress` -> `Progress`."""
    n = method[2:] if method.startswith("$/") else method
    out = []
    for seg in n.split("/"):
        for part in _SNAKE_2.sub("_", _SNAKE_1.sub("_", seg)).split("_"):
            if part:
                out.append(part[:1].upper() + part[1:].lower())
    return "".join(out)


def method_constant(method):
    """`textDocument/didSave` -> `TEXT_DOCUMENT_DID_SAVE`; `$/progress` -> `PROGRESS`."""
    n = method
    if n.startswith("$"):
        n = n[1:]
    if n.startswith("/"):
        n = n[1:]
    segs = []
    for seg in n.split("/"):
        segs.append(_SNAKE_2.sub("_", _SNAKE_1.sub("_", seg)))
    return "_".join(segs).upper()


class MM:
    def __init__(self, doc):
        self.doc = doc
        self.structures = {s["name"]: s for s in doc.get("structures", [])}
        self.aliases = {a["name"]: a for a in doc.get("typeAliases", [])}
        self.enums = {e["name"]: e for e in doc.get("enumerations", [])}
        self.requests = list(doc.get("requests", []))
        self.notifications = list(doc.get("notifications", []))
        self._flat = {}
        self._envelopes = None
        # documented customisation of the Python package (lsprotocol issue 344); C17 reads the
        # metamodel without it
        self.open_overrides = {"CompletionItemKind"}

    @classmethod
    def load(cls, path):
        with open(path, encoding="utf-8") as f:
            return cls(json.load(f))

    # -- structures ----------------------------------------------------------------------
    def flatten(self, name):
        """own + extends + mixins, nearest declaration wins, declaration order."""
        if name in self._flat:
            return self._flat[name]
        s = self.structures[name]
        out = list(s.get("properties", []))
        names = {p["name"] for p in out}
        # breadth: direct parents first (nearest), then their parents
        queue = list(s.get("extends", []) or []) + list(s.get("mixins", []) or [])
        seen = {name}
        while queue:
            nxt = []
            for r in queue:
                if r.get("kind") != "reference" or r["name"] in seen:
                    continue
                seen.add(r["name"])
                ps = self.structures.get(r["name"])
                if ps is None:
                    continue
                for p in ps.get("properties", []):
                    if p["name"] not in names:
                        names.add(p["name"])
                        out.append(p)
                nxt += list(ps.get("extends", []) or []) + list(ps.get("mixins", []) or [])
            queue = nxt
        self._flat[name] = out
        return out

    def and_props(self, t):
        out, names = [], set()
        for it in t["items"]:
            if it["kind"] == "reference" and it["name"] in self.structures:
                for p in self.flatten(it["name"]):
                    if p["name"] not in names:
                        names.add(p["name"])
                        out.append(p)
        return out

    def props_of(self, t):
        """Declared properties if t denotes a protocol object type, else None."""
        k = t["kind"]
        if k == "reference":
            n = t["name"]
            if n in self.structures:
                return self.flatten(n)
            if n in self.envelopes():
                return self.envelopes()[n]["properties"]
            if n in self.aliases and n not in ANY_ALIASES:
                return self.props_of(self.aliases[n]["type"])
            return None
        if k == "literal":
            return list(t["value"].get("properties", []))
        if k == "and":
            return self.and_props(t)
        return None

    def is_open_enum(self, name):
        e = self.enums[name]
        return bool(e.get("supportsCustomValues")) or name in self.open_overrides

    def enum_base(self, name):
        return self.enums[name]["type"]["name"]

    # -- envelopes -----------------------------------------------------------------------
    def message_class_base(self, msg):
        return msg.get("typeName") or method_to_class(msg["method"])

    def request_class_names(self, req):
        n = self.message_class_base(req)
        if not n.endswith("Request"):
            n += "Request"
        part = n[:-len("Request")]          # the trailing suffix only: a name may contain "Request" elsewhere
        return part + "Request", part + "Response", part

    def notification_class_name(self, note):
        n = self.message_class_base(note)
        if not n.endswith("Notification"):
            n += "Notification"
        return n

    def envelopes(self):
        """name -> pseudo-structure {name, properties, role, method, always}.  `always` lists the
        properties that are written even when unset (method, jsonrpc, a response's result)."""
        if self._envelopes is not None:
            return self._envelopes
        env = {}
        idt = {"kind": "or", "items": [base("integer"), base("string")]}
        jsonrpc = {"name": "jsonrpc", "type": {"kind": "stringLiteral", "value": "2.0"}}

        def params_prop(m, cls_part):
            if m.get("params") is None:
                return {"name": "params", "type": base("null"), "optional": True}
            p = m["params"]
            if isinstance(p, list):
                p = {"kind": "tuple", "items": p}
            return {"name": "params", "type": p}

        for r in self.requests:
            req, resp, part = self.request_class_names(r)
            env[req] = {
                "name": req, "role": "request", "method": r["method"], "msg": r,
                "properties": [
                    {"name": "id", "type": idt},
                    params_prop(r, part),
                    {"name": "method", "type": {"kind": "stringLiteral", "value": r["method"]}},
                    jsonrpc,
                ],
                "always": ("method", "jsonrpc"),
            }
            res = r.get("result") or base("null")
            env[resp] = {
                "name": resp, "role": "response", "method": r["method"], "msg": r,
                "properties": [
                    {"name": "id", "type": idt},
                    {"name": "result", "type": res},
                    jsonrpc,
                ],
                "always": ("result", "jsonrpc"),
            }
        for n in self.notifications:
            cls = self.notification_class_name(n)
            env[cls] = {
                "name": cls, "role": "notification", "method": n["method"], "msg": n,
                "properties": [
                    params_prop(n, cls),
                    {"name": "method", "type": {"kind": "stringLiteral", "value": n["method"]}},
                    jsonrpc,
                ],
                "always": ("method", "jsonrpc"),
            }
        env["ResponseError"] = {
            "name": "ResponseError", "role": "support", "method": None,
            "properties": [
                {"name": "code", "type": base("integer")},
                {"name": "message", "type": base("string")},
                {"name": "data", "type": ref("LSPAny"), "optional": True},
            ],
            "always": (),
        }
        env["ResponseErrorMessage"] = {
            "name": "ResponseErrorMessage", "role": "error", "method": None,
            "properties": [
                {"name": "id", "type": {"kind": "or", "items": [base("integer"), base("string"), base("null")]},
                 "optional": True, "omit_when_unset": True},
                {"name": "error", "type": ref("ResponseError"), "optional": True},
                jsonrpc,
            ],
            "always": ("error", "jsonrpc"),
        }
        self._envelopes = env
        return env

    # -- roots ---------------------------------------------------------------------------
    def roots(self, structures=True, aliases=True, envelopes=True):
        out = []
        if structures:
            out += [("structure", n) for n in self.structures]
        if aliases:
            out += [("alias", n) for n in self.aliases if n not in ANY_ALIASES]
        if envelopes:
            out += [("envelope", n) for n in self.envelopes()]
        return out

    # -- validity ------------------------------------------------------------------------
    def valid(self, j, t, strict=False):
        k = t["kind"]
        if k == "base":
            n = t["name"]
            if n in STRING_BASES:
                return isinstance(j, str)
            if n == "integer":
                return is_int(j) and INT_MIN <= j <= INT_MAX
            if n == "uinteger":
                return is_int(j) and UINT_MIN <= j <= UINT_MAX
            if n == "decimal":
                return is_num(j)
            if n == "boolean":
                return isinstance(j, bool)
            if n == "null":
                return j is None
            return False
        if k == "stringLiteral":
            return isinstance(j, str) and j == t["value"]
        if k == "integerLiteral":
            return is_int(j) and j == t["value"]
        if k == "booleanLiteral":
            return isinstance(j, bool) and j is t["value"]
        if k == "reference":
            n = t["name"]
            if n in self.enums:
                return self.valid_enum(j, n)
            if n in self.aliases:
                if n == "LSPAny":
                    return True
                if n == "LSPObject":
                    return isinstance(j, dict)
                if n == "LSPArray":
                    return isinstance(j, list)
                return self.valid(j, self.aliases[n]["type"], strict)
            if n in self.structures or n in self.envelopes():
                return self.valid_obj(j, self.props_of(t), strict)
            return False
        if k == "array":
            return isinstance(j, list) and all(self.valid(x, t["element"], strict) for x in j)
        if k == "map":
            return isinstance(j, dict) and all(
                self.valid_key(kk, t["key"]) and self.valid(v, t["value"], strict) for kk, v in j.items())
        if k == "or":
            return any(self.valid(j, i, strict) for i in t["items"])
        if k == "and":
            return self.valid_obj(j, self.and_props(t), strict)
        if k == "tuple":
            return (isinstance(j, list) and len(j) == len(t["items"])
                    and all(self.valid(x, i, strict) for x, i in zip(j, t["items"])))
        if k == "literal":
            return self.valid_obj(j, t["value"].get("properties", []), strict)
        return False

    def valid_key(self, kk, t):
        if not isinstance(kk, str):
            return False
        if t["kind"] == "base" and t["name"] in ("integer", "uinteger"):
            try:
                return self.valid(int(kk), t)
            except ValueError:
                return False
        return self.valid(kk, t)

    def valid_enum(self, j, name):
        e = self.enums[name]
        b = e["type"]["name"]
        if b == "string":
            if not isinstance(j, str):
                return False
        else:
            if not self.valid(j, base(b)):
                return False
        if any(json_eq(v["value"], j) for v in e["values"]):
            return True
        return self.is_open_enum(name)

    def valid_obj(self, j, props, strict):
        if not isinstance(j, dict):
            return False
        declared = set()
        for p in props:
            declared.add(p["name"])
            if p["name"] in j:
                if not self.valid(j[p["name"]], p["type"], strict):
                    return False
            elif not p.get("optional"):
                return False
        if strict and props:
            if any(kk not in declared for kk in j):
                return False
        return True

    def alternatives(self, j, t, strict=True):
        """Indices of the `or` items for which j is valid."""
        return [i for i, it in enumerate(t["items"]) if self.valid(j, it, strict)]

    # -- normal form matching (C01) ------------------------------------------------------
    def nf_match(self, u, j, t, always=()):
        """True iff there is a strict reading R of j as t with u == nf(j, t, R): declared
        null-admitting properties written as null when unset, literals always written, every
        other unset optional omitted, all data of j kept."""
        k = t["kind"]
        if k == "or":
            return any(self.valid(j, it, True) and self.nf_match(u, j, it) for it in t["items"])
        if k == "reference":
            n = t["name"]
            if n in self.aliases and n not in ANY_ALIASES:
                return self.nf_match(u, j, self.aliases[n]["type"])
            if n in self.structures:
                props = self.flatten(n)
                if not props:
                    # a named structure without declared properties: whatever j carries is undeclared data
                    # (C15: ignored); the generated class cannot hold it - both outputs are normal forms
                    return isinstance(u, dict) and isinstance(j, dict) and (u == {} or json_eq(u, j))
                return self.nf_match_obj(u, j, props, ())
            if n in self.envelopes():
                e = self.envelopes()[n]
                return self.nf_match_obj(u, j, e["properties"], e["always"])
            return json_eq(u, j)
        if k == "array":
            return (isinstance(u, (list, tuple)) and isinstance(j, list) and len(u) == len(j)
                    and all(self.nf_match(a, b, t["element"]) for a, b in zip(u, j)))
        if k == "tuple":
            return (isinstance(u, (list, tuple)) and isinstance(j, list) and len(u) == len(j) == len(t["items"])
                    and all(self.nf_match(a, b, i) for a, b, i in zip(u, j, t["items"])))
        if k == "map":
            return (isinstance(u, dict) and isinstance(j, dict) and u.keys() == j.keys()
                    and all(self.nf_match(u[x], j[x], t["value"]) for x in j))
        if k == "and":
            return self.nf_match_obj(u, j, self.and_props(t), ())
        if k == "literal":
            props = t["value"].get("properties", [])
            if not props:
                return json_eq(u, j)
            return self.nf_match_obj(u, j, props, ())
        return json_eq(u, j)

    def nf_match_obj(self, u, j, props, always):
        if not isinstance(u, dict) or not isinstance(j, dict):
            return False
        declared = {p["name"] for p in props}
        if not props:
            return json_eq(u, j)
        if any(kk not in declared for kk in j):
            return False            # undeclared data cannot be kept by this reading
        for kk in u:
            if kk not in declared:
                return False
        for p in props:
            n = p["name"]
            if n in j:
                if (j[n] is None and p.get("optional") and
                        (p.get("omit_when_unset") or not admits_null(p["type"])) and n not in always):
                    # explicit null where null only means "unset" (optional LSPAny, absent params):
                    # indistinguishable from unset after parsing - no verdict on null vs omitted
                    if n in u and u[n] is not None:
                        return False
                    continue
                if j[n] is None and n in always:
                    if n not in u or u[n] is not None:
                        return False
                    continue
                if n not in u or not self.nf_match(u[n], j[n], p["type"]):
                    return False
            else:
                lit = p["type"]["kind"] == "stringLiteral"
                if lit:
                    if n not in u or u[n] != p["type"]["value"]:
                        return False
                elif p.get("omit_when_unset"):
                    if n in u and u[n] is not None:
                        return False
                elif admits_null(p["type"]) or n in always:
                    if n not in u or u[n] is not None:
                        return False
                else:
                    if n in u:
                        return False
        return True

    # -- the normal form itself (C02) ----------------------------------------------------
    def nf(self, j, t, pick, always=()):
        """Normal form of j read as t; `pick(j, or_type, valid_indices)` chooses the
        alternative at each union position."""
        k = t["kind"]
        if k == "or":
            alts = self.alternatives(j, t, True)
            i = pick(j, t, alts)
            return self.nf(j, t["items"][i], pick)
        if k == "reference":
            n = t["name"]
            if n in self.aliases and n not in ANY_ALIASES:
                return self.nf(j, self.aliases[n]["type"], pick)
            if n in self.structures:
                return self.nf_obj(j, self.flatten(n), (), pick)
            if n in self.envelopes():
                e = self.envelopes()[n]
                return self.nf_obj(j, e["properties"], e["always"], pick)
            return j
        if k == "array":
            return [self.nf(x, t["element"], pick) for x in j]
        if k == "tuple":
            return [self.nf(x, i, pick) for x, i in zip(j, t["items"])]
        if k == "map":
            return {kk: self.nf(v, t["value"], pick) for kk, v in j.items()}
        if k == "and":
            return self.nf_obj(j, self.and_props(t), (), pick)
        if k == "literal":
            props = t["value"].get("properties", [])
            return self.nf_obj(j, props, (), pick) if props else j
        return j

    def nf_obj(self, j, props, always, pick):
        if not props:
            return j
        out = {}
        for p in props:
            n = p["name"]
            if n in j:
                if j[n] is None:
                    if admits_null(p["type"]) or n in always or not p.get("optional") or is_null_type(p["type"]) and not p.get("optional"):
                        out[n] = None
                    # explicit null on a plain optional property means unset: omitted
                    continue
                out[n] = self.nf(j[n], p["type"], pick)
            elif p["type"]["kind"] == "stringLiteral":
                out[n] = p["type"]["value"]
            elif p.get("omit_when_unset"):
                pass
            elif admits_null(p["type"]) or n in always:
                out[n] = None
        return out

    # -- sites ---------------------------------------------------------------------------
    def walk_types(self):
        """Yield (owner_kind, owner_name, path, type) for every type-expression node of the
        document.  path is a tuple of steps from the owner."""
        def rec(t, owner, path):
            yield owner[0], owner[1], path, t
            k = t["kind"]
            if k == "array":
                yield from rec(t["element"], owner, path + ("[]",))
            elif k == "map":
                yield from rec(t["key"], owner, path + ("{key}",))
                yield from rec(t["value"], owner, path + ("{}",))
            elif k in ("or", "and", "tuple"):
                for i, it in enumerate(t["items"]):
                    yield from rec(it, owner, path + ("%s%d" % ("|" if k == "or" else "&" if k == "and" else "#", i),))
            elif k == "literal":
                for p in t["value"].get("properties", []):
                    yield from rec(p["type"], owner, path + ("." + p["name"],))
        for s in self.structures.values():
            for p in s.get("properties", []):
                yield from rec(p["type"], ("structure", s["name"]), ("." + p["name"],))
        for a in self.aliases.values():
            yield from rec(a["type"], ("alias", a["name"]), ())
        for m in self.requests + self.notifications:
            for f in ("params", "result", "partialResult", "registrationOptions", "errorData"):
                v = m.get(f)
                if v is None:
                    continue
                if isinstance(v, list):
                    for i, it in enumerate(v):
                        yield from rec(it, ("method", m["method"]), (f, "#%d" % i))
                else:
                    yield from rec(v, ("method", m["method"]), (f,))

    def non_null_items(self, t):
        return [i for i in t["items"] if not is_null_type(i)]


def canon(j):
    return json.dumps(j, sort_keys=True, ensure_ascii=False, separators=(",", ":"))
