"""IMG-CS: token-level parser for the subset of C# the dotnet plugin emits (type declarations with
attribute lists, auto-properties, constructors with assignment bodies, enums, static string
properties).  Layout (line breaks, spacing, merged or split attribute lists, brace placement, comments)
is irrelevant; everything the parser does not understand inside a type body is skipped as a balanced
token group.  Attributes are re-rendered in one canonical spelling (`Name(arg, Key = value)`)."""
from __future__ import annotations

import os
import re


class CsParseError(Exception):
    pass


_TOKEN_RE = re.compile(r"""
    (?P<ws>\s+)
  | (?P<lcomment>//[^\n]*)
  | (?P<bcomment>/\*.*?\*/)
  | (?P<pp>\#[^\n]*)
  | (?P<vstr>@"(?:[^"]|"")*")
  | (?P<str>\$?"(?:[^"\\\n]|\\.)*")
  | (?P<chr>'(?:[^'\\\n]|\\.)+')
  | (?P<num>-?\d[\d_]*(?:\.\d+)?[A-Za-z]*)
  | (?P<id>@?[A-Za-z_][A-Za-z0-9_]*)
  | (?P<op>=>|\?\?=|\?\?|\?\.|::|==|!=|<=|>=|&&|\|\||\+\+|--|\+=|-=|[{}()\[\]<>;,.:=?!+\-*/%&|^~])
""", re.X | re.S)

MODIFIERS = {"public", "private", "protected", "internal", "static", "readonly", "sealed", "partial", "abstract", "override",
             "virtual", "new", "required", "const", "unsafe", "extern", "volatile", "async"}
TYPE_KEYWORDS = {"record", "class", "enum", "struct", "interface"}
OPEN = {"{": "}", "(": ")", "[": "]"}


def tokenize(text):
    out = []
    pos = 0
    n = len(text)
    while pos < n:
        m = _TOKEN_RE.match(text, pos)
        if not m:
            raise CsParseError("cannot tokenize at %r" % text[pos:pos + 30])
        pos = m.end()
        k = m.lastgroup
        if k in ("ws", "lcomment", "bcomment", "pp"):
            continue
        out.append((k, m.group()))
    return out


def render(tokens):
    """Canonical one-line spelling of a token sequence: no spaces except after ',' and around '='."""
    s = ""
    prev = None
    for k, v in tokens:
        if v == ",":
            s += ", "
        elif v == "=":
            s += " = "
        elif prev is not None and prev[0] in ("id", "num", "str") and k in ("id", "num", "str") and not s.endswith(" "):
            s += " " + v
        else:
            s += v
        prev = (k, v)
    return s.strip()


class _P:
    def __init__(self, toks):
        self.t = toks
        self.i = 0

    def peek(self, k=0):
        j = self.i + k
        return self.t[j][1] if j < len(self.t) else None

    def kind(self, k=0):
        j = self.i + k
        return self.t[j][0] if j < len(self.t) else None

    def next(self):
        v = self.t[self.i]
        self.i += 1
        return v

    def eof(self):
        return self.i >= len(self.t)

    def expect(self, v):
        if self.peek() != v:
            raise CsParseError("expected %r, found %r (token %d)" % (v, self.peek(), self.i))
        self.i += 1

    def balanced(self):
        """The current token opens a group: consume it up to its partner, return the inner tokens."""
        op = self.peek()
        cl = OPEN[op]
        depth = 0
        start = self.i + 1
        while not self.eof():
            v = self.peek()
            if v in OPEN:
                depth += 1
            elif v in ("}", ")", "]"):
                depth -= 1
                if depth == 0:
                    inner = self.t[start:self.i]
                    self.i += 1
                    return inner
            self.i += 1
        raise CsParseError("unbalanced %r" % op)

    def skip_to_semicolon(self):
        """Consume up to and including the next ';' at depth 0."""
        while not self.eof():
            v = self.peek()
            if v in OPEN:
                self.balanced()
                continue
            self.i += 1
            if v == ";":
                return
        return

    # ---- attributes
    def attr_lists(self):
        out = []
        while self.peek() == "[":
            inner = self.balanced()
            for part in split_top_tokens(inner):
                if not part:
                    continue
                # drop a target specifier such as `return:` / `field:`
                if len(part) > 2 and part[1][1] == ":" and part[0][0] == "id":
                    part = part[2:]
                out.append(render(part))
        return out

    # ---- types
    def parse_type(self):
        """-> token list of one type, or None (position restored) if the tokens do not form a type."""
        start = self.i
        try:
            self._type()
        except CsParseError:
            self.i = start
            return None
        return self.t[start:self.i]

    def _type(self):
        if self.peek() == "(":
            # tuple type: ( type [name] , type [name] ... )
            self.i += 1
            while True:
                self._type()
                if self.kind() == "id" and self.peek(1) in (",", ")"):
                    self.i += 1
                if self.peek() == ",":
                    self.i += 1
                    continue
                break
            self.expect(")")
        else:
            if self.kind() != "id" or self.peek() in MODIFIERS:
                raise CsParseError("no type at %r" % self.peek())
            self.i += 1
            while self.peek() in (".", "::") and self.kind(1) == "id":
                self.i += 2
            if self.peek() == "<":
                self.i += 1
                while True:
                    self._type()
                    if self.peek() == ",":
                        self.i += 1
                        continue
                    break
                self.expect(">")
        while self.peek() == "?" or (self.peek() == "[" and self.peek(1) in ("]", ",")):
            if self.peek() == "?":
                self.i += 1
            else:
                self.balanced()


def split_top_tokens(tokens):
    out, cur, d = [], [], 0
    for k, v in tokens:
        if v in ("(", "[", "{", "<"):
            d += 1
        elif v in (")", "]", "}", ">"):
            d -= 1
        if v == "," and d == 0:
            out.append(cur)
            cur = []
        else:
            cur.append((k, v))
    if cur:
        out.append(cur)
    return out


def _unquote(tok):
    s = tok
    if s.startswith('@"'):
        return s[2:-1].replace('""', '"')
    if s.startswith("$"):
        s = s[1:]
    return s[1:-1]


def _parse_params(tokens):
    out = []
    for part in split_top_tokens(tokens):
        if not part:
            continue
        # drop attribute lists and modifiers (ref/out/in/params/this)
        while part and part[0][1] == "[":
            depth = 0
            j = 0
            for j, (k, v) in enumerate(part):
                if v == "[":
                    depth += 1
                elif v == "]":
                    depth -= 1
                    if depth == 0:
                        break
            part = part[j + 1:]
        while part and part[0][1] in ("ref", "out", "in", "params", "this"):
            part = part[1:]
        default = None
        d = 0
        for j, (k, v) in enumerate(part):
            if v in ("(", "<", "["):
                d += 1
            elif v in (")", ">", "]"):
                d -= 1
            elif v == "=" and d == 0:
                default = render(part[j + 1:])
                part = part[:j]
                break
        if not part:
            continue
        name = part[-1][1] if part[-1][0] == "id" and len(part) > 1 else ""
        typ = render(part[:-1]) if name else render(part)
        out.append((typ, name, default))
    return out


def _parse_ctor_body(tokens):
    """Top-level statements `Name = expr;` (also `this.Name = expr;`) of a constructor body."""
    assigns = []
    p = _P(tokens)
    while not p.eof():
        start = p.i
        if p.peek() == "this" and p.peek(1) == ".":
            p.i += 2
        if p.kind() == "id" and p.peek(1) == "=":
            lhs = p.peek()
            p.i += 2
            rs = p.i
            p.skip_to_semicolon()
            assigns.append((lhs, render(p.t[rs:p.i - 1])))
            continue
        p.i = start
        if p.peek() in OPEN:
            p.balanced()
            continue
        # some other statement: skip it (a block statement ends with its block, anything else with ';')
        while not p.eof():
            v = p.peek()
            if v == "{":
                p.balanced()
                break
            if v in OPEN:
                p.balanced()
                continue
            p.i += 1
            if v == ";":
                break
    return assigns


def _parse_type_decl(p, attrs):
    """p is positioned at the type keyword."""
    kind = p.next()[1]
    if kind == "record" and p.peek() in ("class", "struct"):
        p.i += 1
    if p.kind() != "id":
        raise CsParseError("type declaration without a name")
    name = p.next()[1]
    if p.peek() == "<":
        d = 0
        while not p.eof():
            v = p.peek()
            p.i += 1
            if v == "<":
                d += 1
            elif v == ">":
                d -= 1
                if d == 0:
                    break
    decl = {"kind": kind, "name": name, "bases": "", "attrs": attrs, "members": [], "ctor": None, "enum_members": [], "statics": [],
            "other_ctors": []}
    if p.peek() == "(":                      # positional record
        decl["primary_params"] = _parse_params(p.balanced())
    if p.peek() == ":":
        p.i += 1
        bs = p.i
        while not p.eof() and p.peek() not in ("{", ";", "where"):
            if p.peek() == "(":
                p.balanced()
            else:
                p.i += 1
        decl["bases"] = render(p.t[bs:p.i])
    while not p.eof() and p.peek() not in ("{", ";"):
        p.i += 1                              # where-clauses
    if p.peek() == ";":
        p.i += 1
        return decl
    body = p.balanced()
    if kind == "enum":
        _parse_enum_body(decl, body)
    else:
        _parse_class_body(decl, body)
    return decl


def _parse_enum_body(decl, tokens):
    for part in split_top_tokens(tokens):
        if not part:
            continue
        q = _P(part)
        attrs = q.attr_lists()
        if q.kind() != "id":
            raise CsParseError("unexpected tokens in enum %s: %r" % (decl["name"], render(part)[:60]))
        name = q.next()[1]
        value = None
        if q.peek() == "=":
            q.i += 1
            txt = render(q.t[q.i:])
            try:
                value = int(txt.replace("_", ""), 0)
            except ValueError:
                raise CsParseError("enum member %s.%s = %r is no integer literal" % (decl["name"], name, txt))
        sval = None
        for a in attrs:
            m = re.match(r'^EnumMember\(Value = ("(?:[^"\\]|\\.)*"|@"(?:[^"]|"")*")\)$', a)
            if m:
                sval = _unquote(m.group(1))
        if sval is not None:
            decl["enum_members"].append((name, sval))
        elif value is not None:
            decl["enum_members"].append((name, value))
        else:
            decl["enum_members"].append((name, None))


def _parse_class_body(decl, tokens):
    p = _P(tokens)
    while not p.eof():
        attrs = p.attr_lists()
        mods = []
        while p.peek() in MODIFIERS:
            mods.append(p.next()[1])
        if p.eof():
            break
        v = p.peek()
        if v in TYPE_KEYWORDS and p.kind(1) == "id":
            nested = _parse_type_decl(p, attrs)
            decl.setdefault("nested", []).append(nested)
            continue
        if v == ";":
            p.i += 1
            continue
        if v == "{":
            p.balanced()
            continue
        # constructor: Name ( ... ) [: base(...)] { ... }   |   Name ( ... ) [: ...] => expr ;
        if v == decl["name"] and p.peek(1) == "(":
            p.i += 1
            params = _parse_params(p.balanced())
            if p.peek() == ":":
                p.i += 1
                while not p.eof() and p.peek() not in ("{", "=>", ";"):
                    if p.peek() == "(":
                        p.balanced()
                    else:
                        p.i += 1
            assigns = []
            if p.peek() == "{":
                assigns = _parse_ctor_body(p.balanced())
            else:
                p.skip_to_semicolon()
            is_json = any(a == "JsonConstructor" or a.startswith("JsonConstructor(") for a in attrs)
            ctor = {"params": params, "assigns": assigns, "json": is_json}
            if is_json or (decl["ctor"] is None and assigns):
                decl["ctor"] = ctor
            else:
                decl["other_ctors"].append(ctor)
            continue
        typ = p.parse_type()
        if typ is None or p.kind() != "id":
            # operator / indexer / event / destructor / anything else: skip one member
            _skip_member(p)
            continue
        name = p.next()[1]
        while p.peek() == "." and p.kind(1) == "id":      # explicit interface implementation
            p.i += 1
            name = p.next()[1]
        nx = p.peek()
        if nx == "{":
            acc = p.balanced()
            has_get = any(k == "id" and x == "get" for k, x in acc)
            init = None
            has_init = False
            init_tokens = None
            if p.peek() == "=":
                p.i += 1
                s = p.i
                p.skip_to_semicolon()
                init_tokens = p.t[s:p.i - 1]
                has_init = True
            if not has_get:
                continue
            if "static" in mods:
                if has_init and len(init_tokens) == 1 and init_tokens[0][0] in ("str", "vstr") and render(typ) == "string":
                    decl["statics"].append((name, _unquote(init_tokens[0][1]), attrs))
                continue
            if has_init and len(init_tokens) == 1 and init_tokens[0][0] in ("str", "vstr"):
                init = _unquote(init_tokens[0][1])
            decl["members"].append({"name": name, "type": render(typ), "attrs": attrs, "init": init,
                                    "line": "%s %s {%s}" % (render(typ), name, render(acc))})
            continue
        if nx == "(" or nx == "<":
            # method
            if nx == "<":
                d = 0
                while not p.eof():
                    x = p.peek()
                    p.i += 1
                    if x == "<":
                        d += 1
                    elif x == ">":
                        d -= 1
                        if d == 0:
                            break
            if p.peek() == "(":
                p.balanced()
            while not p.eof() and p.peek() not in ("{", "=>", ";"):
                p.i += 1
            if p.peek() == "{":
                p.balanced()
            else:
                p.skip_to_semicolon()
            continue
        if nx == "=>":
            p.skip_to_semicolon()
            continue
        if nx in ("=", ";", ","):
            # field (static string constants count as statics too)
            s = p.i
            p.skip_to_semicolon()
            if nx == "=" and ("static" in mods or "const" in mods) and render(typ) == "string":
                it = p.t[s + 1:p.i - 1]
                if len(it) == 1 and it[0][0] in ("str", "vstr"):
                    decl["statics"].append((name, _unquote(it[0][1]), attrs))
            continue
        _skip_member(p)


def _skip_member(p):
    while not p.eof():
        v = p.peek()
        if v == "{":
            p.balanced()
            return
        if v in OPEN:
            p.balanced()
            continue
        p.i += 1
        if v == ";":
            return


def parse_file(text):
    """-> list of type declarations found in the file:
    {kind, name, bases, attrs, members:[{name,type,attrs,init}], ctor:{params:[(type,name,default)], assigns:[(lhs,rhs)], json},
     enum_members:[(name, value)], statics:[(name, value, attrs)]}"""
    p = _P(tokenize(text))
    out = []

    def block(p):
        while not p.eof():
            v = p.peek()
            if v == "using" or v == "extern":
                p.skip_to_semicolon()
                continue
            if v == "namespace":
                p.i += 1
                while not p.eof() and p.peek() not in ("{", ";"):
                    p.i += 1
                if p.peek() == ";":
                    p.i += 1
                    continue
                inner = _P(p.balanced())
                block(inner)
                continue
            if v == ";":
                p.i += 1
                continue
            attrs = p.attr_lists()
            while p.peek() in MODIFIERS:
                p.i += 1
            if p.peek() in TYPE_KEYWORDS and p.kind(1) == "id":
                out.append(_parse_type_decl(p, attrs))
                continue
            if p.eof():
                break
            if attrs:
                continue                      # assembly-level attributes
            raise CsParseError("unexpected token %r at top level" % p.peek())
    block(p)
    return out


def parse_dir(root):
    """name -> declaration, for every .cs file directly under root."""
    decls = {}
    files = 0
    for f in sorted(os.listdir(root)):
        if not f.endswith(".cs"):
            continue
        files += 1
        with open(os.path.join(root, f), encoding="utf-8") as fh:
            text = fh.read()
        try:
            parsed = parse_file(text)
        except CsParseError as e:
            raise CsParseError("%s: %s" % (f, e))
        for d in parsed:
            d["file"] = f
            if d["name"] in decls:
                decls[d["name"] + "@" + f] = d
            else:
                decls[d["name"]] = d
    return decls, files


def data_member_name(attrs):
    for a in attrs:
        m = re.match(r'^DataMember\((?:.*,\s*)?Name\s*=\s*"((?:[^"\\]|\\.)*)"(?:\s*,.*)?\)$', a)
        if m:
            return m.group(1)
    return None


def null_ignoring(attrs):
    return any(re.match(r"^JsonProperty\(.*NullValueHandling\s*=\s*NullValueHandling\.Ignore.*\)$", a) for a in attrs)


def norm(s):
    return re.sub(r"\s+", "", s)
