"""IMG-CS: parser for the subset of C# the dotnet plugin emits (line structured: one attribute per
line, one member declaration per line)."""
from __future__ import annotations

import os
import re

ATTR_RE = re.compile(r"^\[(.*)\]$")
TYPE_DECL_RE = re.compile(r"^public\s+(?:static\s+)?(record|class|enum)\s+([A-Za-z_][A-Za-z0-9_]*)\s*(?::\s*(.*))?$")
PROP_RE = re.compile(r"^public\s+(?!static)(.+?)\s+([A-Za-z_][A-Za-z0-9_]*)\s*\{\s*get\b.*$")
STATIC_STR_RE = re.compile(r'^public\s+static\s+string\s+([A-Za-z_][A-Za-z0-9_]*)\s*\{\s*get;\s*\}\s*=\s*"((?:[^"\\]|\\.)*)";$')
ENUM_MEMBER_STR_RE = re.compile(r'^\[EnumMember\(Value\s*=\s*"((?:[^"\\]|\\.)*)"\)\]\s*([A-Za-z_][A-Za-z0-9_]*)\s*,?$')
ENUM_MEMBER_INT_RE = re.compile(r"^([A-Za-z_][A-Za-z0-9_]*)\s*=\s*(-?\d+)\s*,?$")


class CsParseError(Exception):
    pass


def parse_file(text):
    """-> list of type declarations found in the file:
    {kind, name, bases, attrs, members:[{name,type,attrs,init}], ctor:{params:[(type,name,default)], assigns:[(lhs,rhs)]},
     enum_members:[(name, value)], statics:[(name, value)]}"""
    lines = [l.strip() for l in text.splitlines()]
    out = []
    i = 0
    pending = []
    cur = None
    depth = 0
    n = len(lines)
    while i < n:
        l = lines[i]
        i += 1
        if not l or l.startswith("//"):
            continue
        if l.startswith("using ") or l.startswith("namespace "):
            if l.endswith("{"):
                pass
            continue
        m = TYPE_DECL_RE.match(l)
        if m and cur is None:
            cur = {"kind": m.group(1), "name": m.group(2), "bases": (m.group(3) or "").strip(), "attrs": pending, "members": [],
                   "ctor": None, "enum_members": [], "statics": [], "other_ctors": []}
            pending = []
            out.append(cur)
            # expect '{'
            while i < n and lines[i] != "{":
                if lines[i]:
                    break
                i += 1
            if i < n and lines[i] == "{":
                i += 1
                depth = 1
            continue
        if cur is None:
            a = ATTR_RE.match(l)
            if a:
                pending.append(a.group(1))
            elif l in ("{", "}"):
                pass
            continue
        # inside a type body
        if l == "}":
            depth -= 1
            if depth == 0:
                cur = None
                pending = []
            continue
        if l == "{":
            depth += 1
            continue
        if depth != 1:
            # nested block (method bodies of converters etc.)
            depth += l.count("{") - l.count("}")
            continue
        if cur["kind"] == "enum":
            ms = ENUM_MEMBER_STR_RE.match(l)
            if ms:
                cur["enum_members"].append((ms.group(2), ms.group(1)))
                pending = []
                continue
            mi = ENUM_MEMBER_INT_RE.match(l)
            if mi:
                cur["enum_members"].append((mi.group(1), int(mi.group(2))))
                pending = []
                continue
            a = ATTR_RE.match(l)
            if a:
                pending.append(a.group(1))
                continue
            raise CsParseError("unexpected line in enum %s: %r" % (cur["name"], l))
        a = ATTR_RE.match(l)
        if a:
            pending.append(a.group(1))
            continue
        st = STATIC_STR_RE.match(l)
        if st:
            cur["statics"].append((st.group(1), st.group(2), pending))
            pending = []
            continue
        if l.startswith("public %s(" % cur["name"]):
            is_json = any(x == "JsonConstructor" for x in pending)
            pending = []
            sig = l
            # single-line constructor (type aliases): public X(T a): base(a) {}
            if sig.rstrip().endswith("{}") or sig.rstrip().endswith("}"):
                cur["other_ctors"].append(sig)
                continue
            params = []
            inline = sig[len("public %s(" % cur["name"]):]
            if inline.rstrip().endswith(")"):
                body = inline.rstrip()[:-1]
                params = [x.strip() for x in split_top(body) if x.strip()]
            else:
                if inline.strip():
                    params += [x.strip() for x in split_top(inline) if x.strip()]
                while i < n and lines[i] != ")":
                    if lines[i]:
                        params += [x.strip() for x in split_top(lines[i]) if x.strip()]
                    i += 1
                i += 1
            assigns = []
            if i < n and lines[i] == "{":
                i += 1
                d2 = 1
                while i < n and d2 > 0:
                    b = lines[i]
                    i += 1
                    if b == "{":
                        d2 += 1
                    elif b == "}":
                        d2 -= 1
                    else:
                        ma = re.match(r"^([A-Za-z_][A-Za-z0-9_]*)\s*=\s*(.+);$", b)
                        if ma and d2 == 1:
                            assigns.append((ma.group(1), ma.group(2)))
                        d2 += b.count("{") - b.count("}") if b not in ("{", "}") else 0
            ctor = {"params": [parse_param(x) for x in params], "assigns": assigns, "json": is_json}
            if is_json or cur["ctor"] is None:
                cur["ctor"] = ctor
            continue
        mp = PROP_RE.match(l)
        if mp:
            init = None
            mi = re.search(r'\}\s*=\s*"((?:[^"\\]|\\.)*)";$', l)
            if mi:
                init = mi.group(1)
            cur["members"].append({"name": mp.group(2), "type": mp.group(1).strip(), "attrs": pending, "init": init, "line": l})
            pending = []
            continue
        if l.startswith("private ") or l.startswith("public ") or l.startswith("if ") or l.startswith("throw ") or l.startswith("reader") or l.startswith("var ") or l.startswith("return") or l.startswith("_"):
            pending = []
            depth += l.count("{") - l.count("}")
            continue
        depth += l.count("{") - l.count("}")
    return out


def split_top(s):
    out, cur, d = [], "", 0
    for ch in s:
        if ch in "<(":
            d += 1
        elif ch in ">)":
            d -= 1
        if ch == "," and d == 0:
            out.append(cur)
            cur = ""
        else:
            cur += ch
    if cur.strip():
        out.append(cur)
    return out


def parse_param(p):
    default = None
    if "=" in p:
        p, default = p.split("=", 1)
        default = default.strip()
    p = p.strip()
    m = re.match(r"^(.*\S)\s+([A-Za-z_@][A-Za-z0-9_]*)$", p)
    if not m:
        return (p, "", default)
    return (m.group(1).strip(), m.group(2), default)


def parse_dir(root):
    """name -> declaration, for every .cs file directly under root."""
    decls = {}
    files = 0
    for f in sorted(os.listdir(root)):
        if not f.endswith(".cs"):
            continue
        files += 1
        with open(os.path.join(root, f), encoding="utf-8") as fh:
            text = fh.read()
        for d in parse_file(text):
            d["file"] = f
            if d["name"] in decls:
                decls[d["name"] + "@" + f] = d
            else:
                decls[d["name"]] = d
    return decls, files


def data_member_name(attrs):
    for a in attrs:
        m = re.match(r'^DataMember\(Name\s*=\s*"((?:[^"\\]|\\.)*)"\)$', a)
        if m:
            return m.group(1)
    return None


def null_ignoring(attrs):
    return any(re.match(r"^JsonProperty\(.*NullValueHandling\s*=\s*NullValueHandling\.Ignore.*\)$", a) for a in attrs)


def norm(s):
    return re.sub(r"\s+", "", s)
