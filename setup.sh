#!/bin/bash
# Offline setup: nothing to build (pure Python, run with /venv/bin/python); self-test of the
# reference model and the parsers so a broken framework is seen before any check runs.
cd "$(dirname "$0")"
export PYTHONDONTWRITEBYTECODE=1
mkdir -p evidence out/replays
exec /venv/bin/python -m lspverif.selftest
