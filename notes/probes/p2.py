import json, sys, os, collections, time
sys.path.insert(0,'/repo/packages/python')
from lsprotocol import types as lsp, converters
conv=converters.get_converter()
root='/tmp/gen/td'
c=collections.Counter(); bad=collections.defaultdict(list)
t0=time.time()
for f in os.listdir(root):
    tn,lab,_=f.split('-',2)
    data=json.load(open(os.path.join(root,f),encoding='utf-8'))
    try:
        conv.structure(data,getattr(lsp,tn)); okk=True
    except Exception as e:
        okk=False
    c[(lab,okk)]+=1
    if str(okk)!=lab: bad[(tn,lab)].append(f)
print(c, time.time()-t0)
for k,v in sorted(bad.items()): print(k,len(v),v[0])
