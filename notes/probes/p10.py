import json, sys, logging, collections, time
sys.path.insert(0,'/repo'); sys.path.insert(0,'/tmp/probe')
import generator.model as model
from generator.plugins.testdata import testdata_generator as tg
doc=json.load(open('/repo/generator/lsp.json'))
S={s['name']:s for s in doc['structures']}
A={a['name']:a for a in doc['typeAliases']}
E={e['name']:e for e in doc['enumerations']}
def props(name):
    s=S[name]; out=list(s['properties']); names={p['name'] for p in out}
    for e in s.get('extends',[])+s.get('mixins',[]):
        for p in props(e['name']):
            if p['name'] not in names: out.append(p); names.add(p['name'])
    return out
IMIN,IMAX=-2**31,2**31-1
def isint(j): return isinstance(j,int) and not isinstance(j,bool)
def valid(j,t):
    k=t['kind']
    if k=='base':
        n=t['name']
        if n in('string','DocumentUri','URI','RegExp'): return isinstance(j,str)
        if n=='integer': return isint(j) and IMIN<=j<=IMAX
        if n=='uinteger': return isint(j) and 0<=j<=IMAX
        if n=='decimal': return (isint(j) or isinstance(j,float))
        if n=='boolean': return isinstance(j,bool)
        if n=='null': return j is None
    if k=='stringLiteral': return j==t['value']
    if k=='reference':
        n=t['name']
        if n in S: return valid_obj(j,props(n))
        if n in A:
            if n in('LSPAny',): return True
            if n=='LSPObject': return isinstance(j,dict)
            if n=='LSPArray': return isinstance(j,list)
            return valid(j,A[n]['type'])
        e=E[n]
        bt=e['type']['name']
        okbase = isinstance(j,str) if bt=='string' else (isint(j) and (IMIN if bt=='integer' else 0)<=j<=IMAX)
        if not okbase: return False
        if e.get('supportsCustomValues'): return True
        return j in [v['value'] for v in e['values']]
    if k=='array': return isinstance(j,list) and all(valid(x,t['element']) for x in j)
    if k=='map':
        if not isinstance(j,dict): return False
        for kk,v in j.items():
            kt=t['key']
            if kt['kind']=='base' and kt['name']=='integer':
                try: ki=int(kk)
                except: return False
                if not IMIN<=ki<=IMAX: return False
            if not valid(v,t['value']): return False
        return True
    if k=='or': return any(valid(j,i) for i in t['items'])
    if k=='and':
        ps=[]
        for it in t['items']:
            for p in props(it['name']):
                if p['name'] not in [q['name'] for q in ps]: ps.append(p)
        return valid_obj(j,ps)
    if k=='tuple': return isinstance(j,list) and len(j)==len(t['items']) and all(valid(x,i) for x,i in zip(j,t['items']))
    if k=='literal': return valid_obj(j,t['value']['properties'])
    raise Exception(k)
def valid_obj(j,ps):
    if not isinstance(j,dict): return False
    if not ps: return True   # open object
    names={p['name'] for p in ps}
    if any(k not in names for k in j): return False
    for p in ps:
        if p['name'] in j:
            if not valid(j[p['name']],p['type']): return False
        elif not p.get('optional'): return False
    return True
def valid_id(j): return isinstance(j,str) or (isint(j) and IMIN<=j<=IMAX)
RESP_ERR={'kind':'literal','value':{'properties':[{'name':'code','type':{'kind':'base','name':'integer'}},{'name':'message','type':{'kind':'base','name':'string'}},{'name':'data','type':{'kind':'reference','name':'LSPObject'},'optional':True}]}}
def valid_msg(j,kind,r):
    if not isinstance(j,dict): return False
    if j.get('jsonrpc')!='2.0': return False
    allowed={'jsonrpc'}
    if kind in('req','not'):
        if j.get('method')!=r['method']: return False
        allowed|={'method','params'}
        if kind=='req':
            if 'id' not in j or not valid_id(j['id']): return False
            allowed.add('id')
        if 'params' in r:
            if 'params' not in j or not valid(j['params'],r['params']): return False
        else:
            if 'params' in j and j['params'] is not None: return False
    else:
        if 'id' not in j or not valid_id(j['id']): return False
        allowed|={'id','result','error'}
        if 'result' in j and not valid(j['result'],r['result']): return False
        if 'error' in j and not valid(j['error'],RESP_ERR): return False
    return all(k in allowed for k in j)
spec=model.create_lsp_model([doc])
log=logging.getLogger('x'); log.disabled=True
t0=time.time(); data=tg.generate(spec,log); print('generated',len(data),time.time()-t0)
byname={}
for r in doc['requests']:
    n=r.get('typeName') or tg.lsp_method_to_name(r['method'])
    if not n.endswith('Request'): n+='Request'
    byname[n]=('req',r); byname[n.replace('Request','')+'Response']=('resp',r)
for r in doc['notifications']:
    n=r.get('typeName') or tg.lsp_method_to_name(r['method'])
    if not n.endswith('Notification'): n+='Notification'
    byname[n]=('not',r)
mism=collections.Counter(); ex={}; trues=collections.Counter()
for fname,content in data.items():
    cls,lab,_=fname.split('-',2)
    kind,r=byname[cls]
    j=json.loads(content)
    v=valid_msg(j,kind,r)
    if lab=='True': trues[cls]+=1
    if str(v)!=lab:
        mism[(cls,lab)]+=1; ex.setdefault((cls,lab),content)
print('mismatch classes',len(mism), sum(mism.values()), 'classes without True', [c for c in byname if not trues[c]])
for k,v in sorted(mism.items())[:40]: print(k,v,' '.join(ex[k].split())[:260])
