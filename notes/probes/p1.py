import json, sys, time, collections
sys.path.insert(0,'/repo/packages/python')
from lsprotocol import types as lsp, converters
conv = converters.get_converter()
m=json.load(open('/repo/generator/lsp.json'))
S={s['name']:s for s in m['structures']}
A={a['name']:a for a in m['typeAliases']}
E={e['name']:e for e in m['enumerations']}
def props(name, seen=None):
    s=S[name]; out=list(s['properties']); names={p['name'] for p in out}
    for e in s.get('extends',[])+s.get('mixins',[]):
        for p in props(e['name']):
            if p['name'] not in names:
                out.append(p); names.add(p['name'])
    return out
def minimal(t, depth=0):
    k=t['kind']
    if k=='base':
        return {'string':'s','integer':0,'uinteger':0,'decimal':0.5,'boolean':True,'null':None,'DocumentUri':'file:///a','URI':'file:///a','RegExp':'.*'}[t['name']]
    if k=='reference':
        n=t['name']
        if n in S: return {p['name']:minimal(p['type'],depth+1) for p in props(n) if not p.get('optional')}
        if n in A:
            if n in ('LSPAny',): return None
            if n=='LSPObject': return {}
            if n=='LSPArray': return []
            return minimal(A[n]['type'],depth+1)
        if n in E: return E[n]['values'][0]['value']
        raise KeyError(n)
    if k=='array': return []
    if k=='map': return {}
    if k=='or': return minimal(t['items'][0],depth+1)
    if k=='and':
        d={}
        for i in t['items']: d.update(minimal(i,depth+1))
        return d
    if k=='tuple': return [minimal(i) for i in t['items']]
    if k=='stringLiteral': return t['value']
    if k=='literal': return {p['name']:minimal(p['type']) for p in t['value']['properties'] if not p.get('optional')}
def maximal(t, depth=0, stack=()):
    k=t['kind']
    if k=='reference':
        n=t['name']
        if n in S:
            if stack.count(n)>=1: return minimal(t)
            return {p['name']:maximal(p['type'],depth+1,stack+(n,)) for p in props(n)}
        if n in A:
            if n=='LSPAny': return {'a':[1,None,'x',{'b':2.5}]}
            if n=='LSPObject': return {'k':1}
            if n=='LSPArray': return [1,'a']
            return maximal(A[n]['type'],depth+1,stack)
        if n in E: return E[n]['values'][-1]['value']
    if k=='array': return [maximal(t['element'],depth+1,stack)]
    if k=='map': 
        kk = minimal(t['key'])
        return {kk: maximal(t['value'],depth+1,stack)}
    if k=='or':
        its=[i for i in t['items'] if not (i['kind']=='base' and i['name']=='null')]
        return maximal(its[-1],depth+1,stack)
    if k=='tuple': return [maximal(i) for i in t['items']]
    return minimal(t)
fails=collections.Counter(); ok=0
t0=time.time()
for which,f in (('min',minimal),('max',maximal)):
  for n in S:
    if not hasattr(lsp,n): print('missing class',n); continue
    j=f({'kind':'reference','name':n})
    try:
        o=conv.structure(j,getattr(lsp,n))
        u=conv.unstructure(o)
        ok+=1
        if which=='min':
            # compare modulo nulls
            pass
        def strip(x):
            if isinstance(x,dict): return {k:strip(v) for k,v in x.items() if v is not None}
            if isinstance(x,(list,tuple)): return [strip(v) for v in x]
            return x
        if strip(json.loads(json.dumps(u)))!=strip(j):
            fails['rt:'+which+':'+n]+=1
    except Exception as e:
        fails[which+':'+n+':'+type(e).__name__+':'+str(e)[:100]]+=1
print(time.time()-t0, ok)
for k,v in fails.items(): print(k)
