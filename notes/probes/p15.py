import json, sys, collections
sys.path.insert(0,'/repo/packages/python'); sys.path.insert(0,'/verif/notes/probes')
from p3 import *
from lsprotocol import types as lsp, converters
conv=converters.get_converter()
def null_adm(t): return t['kind']=='or' and any(i['kind']=='base' and i['name']=='null' for i in t['items'])
bad=collections.Counter(); n=0
for name in S:
    cls=getattr(lsp,name)
    for c,j in enum({'kind':'reference','name':name},1):
        # drop null-admitting/literal props to test absent acceptance
        variants=[j]
        for p in props(name):
            if p['name'] in j and (null_adm(p['type']) or p['type']['kind']=='stringLiteral'):
                jj=dict(j); del jj[p['name']]; variants.append(jj)
        for v in variants:
            n+=1
            try: o=conv.structure(v,cls)
            except Exception as e:
                bad[(name,'absent-special-rejected' if v is not j else 'raise')]+=1; continue
            if type(o) is not cls: continue
            u=conv.unstructure(o,cls)
            for p in props(name):
                w=p['name']; t=p['type']
                special=null_adm(t) or t['kind']=='stringLiteral'
                present = w in v and v[w] is not None
                if special and w not in u: bad[(name,w,'special-not-written')]+=1
                if not special and not present and w in u: bad[(name,w,'unset-optional-written')]+=1
                if special and not present:
                    expv = t['value'] if t['kind']=='stringLiteral' else None
                    if u.get(w,'<missing>')!=expv: bad[(name,w,'special-wrong-value',str(u.get(w)))]+=1
print(n,dict(bad))
