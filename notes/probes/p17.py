import json, sys, collections
sys.path.insert(0,'/repo/packages/python'); sys.path.insert(0,'/verif/notes/probes')
from p3 import *
from lsprotocol import types as lsp, converters
conv=converters.get_converter()
def nodes(j,t,path=()):
    """yield paths of protocol-object nodes (struct nodes) in j typed t (first matching alt heuristic: only struct refs/arrays)"""
    k=t['kind']
    if k=='reference' and t['name'] in S and isinstance(j,dict):
        yield path
        for p in props(t['name']):
            if p['name'] in j: yield from nodes(j[p['name']],p['type'],path+(p['name'],))
    elif k=='reference' and t['name'] in A and t['name'] not in('LSPAny','LSPObject','LSPArray'):
        yield from nodes(j,A[t['name']]['type'],path)
    elif k=='array' and isinstance(j,list):
        for i,x in enumerate(j): yield from nodes(x,t['element'],path+(i,))
def add(j,path,k,v):
    import copy; j=copy.deepcopy(j); cur=j
    for p in path: cur=cur[p]
    cur[k]=v; return j
bad=collections.Counter(); n=0
for name in S:
    cls=getattr(lsp,name)
    for c,j in enum({'kind':'reference','name':name},1):
        try: o=conv.structure(j,cls)
        except Exception: continue
        for path in nodes(j,{'kind':'reference','name':name}):
            for k,v in (('zzVerifUnknown',{'a':[1]}),('Kind',None),('x-unknown','s')):
                n+=1
                try:
                    o2=conv.structure(add(j,path,k,v),cls)
                    if o2!=o: bad[(name,path,'differs')]+=1
                except Exception as e: bad[(name,path,'raises',type(e).__name__)]+=1
print(n,dict(bad))
