import json, sys
sys.path.insert(0,'/repo')
import generator.model as model, attrs
doc=json.load(open('/repo/generator/lsp.json'))
m=model.create_lsp_model([doc])
def back(o):
    if attrs.has(type(o)):
        d={}
        for a in attrs.fields(type(o)):
            if a.name=='id_': continue
            v=getattr(o,a.name)
            if v is None: continue
            d[a.name]=back(v)
        return d
    if isinstance(o,(list,tuple)): return [back(x) for x in o]
    return o
b=back(m)
def diff(a,b,path=''):
    out=[]
    if isinstance(a,dict) and isinstance(b,dict):
        for k in a:
            if k not in b: out.append((path+'.'+k,'missing-in-readback',a[k] if not isinstance(a[k],(dict,list)) else '...'))
            else: out+=diff(a[k],b[k],path+'.'+k)
        for k in b:
            if k not in a: out.append((path+'.'+k,'extra-in-readback',b[k] if not isinstance(b[k],(dict,list)) else ('[]' if b[k]==[] else '...')))
    elif isinstance(a,list) and isinstance(b,list):
        if len(a)!=len(b): out.append((path,'len',len(a),len(b)))
        for i,(x,y) in enumerate(zip(a,b)): out+=diff(x,y,path+'[%d]'%i)
    elif a!=b or type(a)!=type(b): out.append((path,'value',a,b))
    return out
d=diff(doc,b)
import collections
c=collections.Counter((x[1], x[0].split('.')[-1], str(x[2:])[:30]) for x in d)
print(len(d)); print(c.most_common(10))
