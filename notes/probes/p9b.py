import sys, collections
sys.argv=['x','2','0']
exec(open('/tmp/probe/p9.py').read().split("N=int(sys.argv[1])")[0])
reset(); s=Sched(2,[]); s.run([body]*2)
c=collections.Counter((w[0]) for t,w,k in s.points)
print(len(s.points), c.most_common(10))
