import json, re, sys, collections
doc=json.load(open('/repo/generator/lsp.json'))
S={s['name']:s for s in doc['structures']}; E={e['name']:e for e in doc['enumerations']}; A={a['name']:a for a in doc['typeAliases']}
def props(name):
    s=S[name]; out=list(s['properties']); names={p['name'] for p in out}
    for e in s.get('extends',[])+s.get('mixins',[]):
        for p in props(e['name']):
            if p['name'] not in names: out.append(p); names.add(p['name'])
    return out
src=open('/repo/packages/rust/lsprotocol/src/lib.rs').read()
# item parser
items={}
lines=src.split('\n'); i=0; attrs=[]
while i<len(lines):
    l=lines[i]
    st=l.strip()
    if st.startswith('#['): attrs.append(st); i+=1; continue
    if st.startswith('///') or st=='' or st.startswith('//'):
        i+=1; continue
    m=re.match(r'pub (struct|enum) (\w+)(<[^>]*>)? \{',l)
    if m and not l.startswith(' '):
        kind,name=m.group(1),m.group(2); body=[]; i+=1; fattrs=[]
        fields=[]
        while not lines[i].startswith('}'):
            s2=lines[i].strip()
            if s2.startswith('#['): fattrs.append(s2)
            elif s2.startswith('///') or s2=='' : pass
            else:
                fields.append((s2,fattrs)); fattrs=[]
            i+=1
        items[name]=(kind,attrs,fields); attrs=[]; i+=1; continue
    attrs=[]; i+=1
print(len([1 for v in items.values() if v[0]=='struct']),len([1 for v in items.values() if v[0]=='enum']))
def camel(ident):
    parts=ident.split('_'); return parts[0]+''.join(p[:1].upper()+p[1:] for p in parts[1:])
def null_adm(t): return t['kind']=='or' and any(i['kind']=='base' and i['name']=='null' for i in t['items'])
BASE={'string':'String','RegExp':'String','DocumentUri':'Url','URI':'Url','decimal':'Decimal','integer':'i32','uinteger':'u32','boolean':'bool'}
def rtype(t):
    k=t['kind']
    if k=='base': return BASE[t['name']]
    if k=='reference':
        e=E.get(t['name'])
        if e and e.get('supportsCustomValues'):
            return ('CustomStringEnum<%s>' if e['type']['name']=='string' else 'CustomIntEnum<%s>')%t['name']
        return t['name']
    if k=='array': return 'Vec<%s>'%rtype(t['element'])
    if k=='map': return 'HashMap<%s, %s>'%(rtype(t['key']),rtype(t['value']))
    if k=='or':
        its=[rtype(i) for i in t['items'] if not(i['kind']=='base' and i['name']=='null')]
        return its[0] if len(its)==1 else 'OR%d<%s>'%(len(its),', '.join(its))
    if k=='tuple': return '(%s)'%', '.join(rtype(i) for i in t['items'])
    if k=='stringLiteral': return 'String'
    if k=='literal': return 'LSPObject' if not t['value']['properties'] else '?'
    return '?'
prob=collections.Counter(); ex={}
for name in S:
    if name not in items: prob['missing struct']+=1; ex['missing struct']=name; continue
    kind,attrs,fields=items[name]
    got={}
    for f,fa in fields:
        m=re.match(r'pub (\w+): (.*),$',f)
        if not m: prob['unparsed field']+=1; ex.setdefault('unparsed field',[]).append((name,f)); continue
        ident,ty=m.group(1),m.group(2)
        wire=camel(ident)
        for a in fa:
            mm=re.search(r'rename = "([^"]+)"',a)
            if mm: wire=mm.group(1)
        got[wire]=ty
    want={p['name']:p for p in props(name)}
    if set(got)!=set(want): prob['field set']+=1; ex['field set']=(name,set(got)^set(want))
    for w,p in want.items():
        if w not in got: continue
        exp=rtype(p['type'])
        if p.get('optional') or null_adm(p['type']): exp='Option<%s>'%exp
        g=got[w].replace('Box<SelectionRange>','SelectionRange')
        if g!=exp: prob['type']+=1; ex.setdefault('type',[]).append((name,w,got[w],exp))
    prop_gate=any('cfg(feature = "proposed")' in a for a in attrs)
    if bool(S[name].get('proposed'))!=prop_gate: prob['gate']+=1; ex.setdefault('gate',[]).append(name)
print(prob); print({k:(v if not isinstance(v,list) else v[:8]) for k,v in ex.items()})
