import sys, time, threading
sys.path.insert(0,'/repo/packages/python')
from lsprotocol import types as lsp, _hooks, converters
import attrs

class Sched:
    def __init__(self, n, choices):
        self.sems=[threading.Semaphore(0) for _ in range(n)]
        self.done=[False]*n
        self.cur=None
        self.choices=list(choices); self.trace=[]; self.points=[]
        self.errors=[None]*n
        self.main=threading.Semaphore(0)
    def tracer(self, tid):
        def tr(frame, event, arg):
            fn=frame.f_code.co_filename
            if fn.endswith('_hooks.py') or fn.endswith('converters.py'):
                if event in('line',):
                    self.yield_(tid,(frame.f_code.co_name,frame.f_lineno))
                return tr
            return None
        return tr
    def yield_(self, tid, where):
        # scheduling point: decide who runs next
        enabled=[i for i in range(len(self.sems)) if not self.done[i]]
        order=[tid]+[i for i in enabled if i!=tid]
        idx=self.choices[len(self.trace)] if len(self.trace)<len(self.choices) else 0
        nxt=order[idx]
        self.trace.append(idx); self.points.append((tid,where,len(order)))
        if nxt!=tid:
            self.sems[nxt].release()
            self.sems[tid].acquire()
    def finish(self, tid):
        self.done[tid]=True
        enabled=[i for i in range(len(self.sems)) if not self.done[i]]
        if enabled: self.sems[enabled[0]].release()
        else: self.main.release()
    def run(self, bodies):
        ths=[]
        for i,b in enumerate(bodies):
            def target(i=i,b=b):
                self.sems[i].acquire()
                sys.settrace(self.tracer(i))
                try: b()
                except BaseException as e: self.errors[i]=repr(e)
                finally:
                    sys.settrace(None); self.finish(i)
            t=threading.Thread(target=target); t.start(); ths.append(t)
        self.sems[0].release()
        self.main.acquire()
        for t in ths: t.join()

full=dict(lsp.ALL_TYPES_MAP)
names=['Position','Range','Location','LSPAny']
orig_types={n:[(a,a.type) for a in attrs.fields(full[n])] for n in names if attrs.has(full[n])}
def reset():
    lsp.ALL_TYPES_MAP={n:full[n] for n in names}
    _hooks._resolved_forward_references=False
    for n,lst in orig_types.items():
        for a,t in lst: object.__setattr__(a,'type',t)
        if '__attrs_types_resolved__' in full[n].__dict__: delattr(full[n],'__attrs_types_resolved__')
res=[]
def body():
    c=converters.get_converter()
    res.append(c.structure({'start':{'line':1,'character':2},'end':{'line':1,'character':3}}, lsp.Range))
# explore bound 1
reset(); s=Sched(2,[]); s.run([body,body]); base=s.points; print(len(base), s.errors)
bad=0; t0=time.time()
for i in range(len(base)):
    if base[i][2]<2: continue
    reset(); s=Sched(2,[0]*i+[1]); s.run([body,body])
    if any(s.errors): bad+=1; last=(i,base[i],s.errors)
print('schedules',len(base),'bad',bad,time.time()-t0, last if bad else None)
