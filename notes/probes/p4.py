import sys, time, threading
sys.path.insert(0,'/repo/packages/python')
t0=time.time()
from lsprotocol import types as lsp, _hooks
print('import',time.time()-t0)
cnt={'line':0,'call':0}
def tr(frame, event, arg):
    if frame.f_code.co_filename.endswith('_hooks.py'):
        if event=='call':
            cnt['call']+=1
            return tr
        if event=='line':
            cnt['line']+=1
        return tr
    return None
sys.settrace(tr)
t0=time.time()
_hooks._resolve_forward_references()
sys.settrace(None)
print('resolve',time.time()-t0,cnt, len(lsp.ALL_TYPES_MAP), '__builtins__' in lsp.ALL_TYPES_MAP)
import cattrs
t0=time.time(); c=_hooks.register_hooks(cattrs.Converter()); print('register',time.time()-t0)
