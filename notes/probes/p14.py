import json, sys, typing, collections, keyword, re
from typing import Any, Dict, Optional, Sequence, Tuple, Union
sys.path.insert(0,'/repo/packages/python')
from lsprotocol import types as lsp, converters
import attrs
converters.get_converter()
doc=json.load(open('/repo/generator/lsp.json'))
S={s['name']:s for s in doc['structures']}; E={e['name']:e for e in doc['enumerations']}; A={a['name']:a for a in doc['typeAliases']}
def props(name):
    s=S[name]; out=list(s['properties']); names={p['name'] for p in out}
    for e in s.get('extends',[])+s.get('mixins',[]):
        for p in props(e['name']):
            if p['name'] not in names: out.append(p); names.add(p['name'])
    return out
def wire(attr):
    n=attr[:-1] if attr.endswith('_') else attr
    parts=n.split('_'); return parts[0]+''.join(p[:1].upper()+p[1:] for p in parts[1:])
def null_adm(t): return t['kind']=='or' and any(i['kind']=='base' and i['name']=='null' for i in t['items'])
def open_enum(n): return n in E and (E[n].get('supportsCustomValues') or n=='CompletionItemKind')
def resolve(t):
    """resolve ForwardRef/str inside typing objects against lsp namespace"""
    if isinstance(t,str): return resolve(getattr(lsp,t))
    if isinstance(t,typing.ForwardRef): return resolve(getattr(lsp,t.__forward_arg__))
    o=typing.get_origin(t)
    if o is None: return t
    args=tuple(resolve(a) for a in typing.get_args(t))
    if o is typing.Union: return Union[args]
    if o is collections.abc.Sequence: return Sequence[args[0]]
    if o is dict: return Dict[args]
    if o is tuple: return Tuple[args]
    return t
def py(t):
    k=t['kind']
    if k=='base': return {'decimal':float,'boolean':bool,'integer':int,'uinteger':int,'string':str,'DocumentUri':str,'URI':str,'null':type(None)}[t['name']]
    if k=='reference':
        n=t['name']; obj=getattr(lsp,n)
        if open_enum(n): return Union[obj, str if E[n]['type']['name']=='string' else int]
        return resolve(obj)
    if k=='array': return Sequence[py(t['element'])]
    if k=='map': return Dict[py(t['key']),py(t['value'])]
    if k=='or': return Union[tuple(py(i) for i in t['items'])]
    if k=='tuple': return Tuple[tuple(py(i) for i in t['items'])]
    if k=='stringLiteral': return str
    if k=='literal' and not t['value']['properties']: return Any
    raise Exception(k)
prob=collections.Counter(); ex={}
def note(k,v): prob[k]+=1; ex.setdefault(k,[]).append(v)
nattr=0
for name in S:
    cls=getattr(lsp,name,None)
    if cls is None: note('missing class',name); continue
    if name=='LSPObject': continue
    fs={wire(a.name):a for a in attrs.fields(cls)}
    ps={p['name']:p for p in props(name)}
    if set(fs)!=set(ps): note('field set',(name,set(fs)^set(ps)))
    for w,p in ps.items():
        if w not in fs: continue
        nattr+=1
        a=fs[w]; t=p['type']
        req = not p.get('optional') and not null_adm(t) and t['kind']!='stringLiteral'
        if (a.default is attrs.NOTHING)!=req: note('required',(name,w,req,a.default))
        exp=py(t)
        if p.get('optional') or null_adm(t): exp=Optional[exp]
        got=resolve(a.type)
        if got!=exp: note('annotation',(name,w,str(got)[:90],str(exp)[:90]))
        if t['kind']=='stringLiteral' and a.default!=t['value']: note('literal default',(name,w))
print('attrs',nattr,dict(prob)); 
for k,v in ex.items(): print(k,v[:6])
# C09
bad=[]
for r in doc['requests']+doc['notifications']:
    mt=lsp.METHOD_TO_TYPES.get(r['method'])
    if mt is None: bad.append(('missing',r['method'])); continue
    if lsp.message_direction(r['method'])!=r['messageDirection']: bad.append(('dir',r['method']))
    if 'params' in r and r['params']['kind']=='reference' and mt[2] is not getattr(lsp,r['params']['name']): bad.append(('params',r['method']))
    if 'params' not in r and mt[2] is not None: bad.append(('params-none',r['method']))
    ro=r.get('registrationOptions')
    if ro is None and mt[3] is not None: bad.append(('reg-none',r['method']))
    if ro and ro['kind']=='reference' and mt[3] is not getattr(lsp,ro['name']): bad.append(('reg',r['method'],mt[3]))
    if ro and ro['kind']!='reference': print('non-ref reg',r['method'],mt[3])
print('C09',len(lsp.METHOD_TO_TYPES),bad, set(lsp.METHOD_TO_TYPES)-{r['method'] for r in doc['requests']+doc['notifications']})
