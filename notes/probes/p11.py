import json, sys, copy, collections
sys.path.insert(0,'/repo')
import generator.model as model
doc=json.load(open('/repo/generator/lsp.json'))
ANNOT={'documentation','since','sinceTags','proposed','deprecated','typeName','supportsCustomValues'}
def nodes(j,path=()):
    yield path,j
    if isinstance(j,dict):
        for k,v in j.items():
            if k in ANNOT: continue
            yield from nodes(v,path+(k,))
    elif isinstance(j,list):
        for i,v in enumerate(j): yield from nodes(v,path+(i,))
def setp(j,path,val):
    j=copy.deepcopy(j); cur=j
    for p in path[:-1]: cur=cur[p]
    cur[path[-1]]=val; return j
def delp(j,path):
    j=copy.deepcopy(j); cur=j
    for p in path[:-1]: cur=cur[p]
    del cur[path[-1]]; return j
def edits(d):
    for path,v in nodes(d):
        if not path: continue
        if isinstance(v,str) and path[-1]!='kind':
            yield 'rename',setp(d,path,v+'X')
        if isinstance(v,bool): yield 'toggle',setp(d,path,not v)
        if isinstance(v,int) and not isinstance(v,bool): yield 'num',setp(d,path,v+1)
        if isinstance(v,list) and len(v)>=1 and isinstance(path[-1],str):
            yield 'droplast',setp(d,path,v[:-1])
            yield 'dup',setp(d,path,v+[v[-1]])
            if len(v)>=2 and v[0]!=v[1]: yield 'swap',setp(d,path,[v[1],v[0]]+v[2:])
        if isinstance(v,dict) and v.get('kind')=='base' and v.get('name')=='string': yield 'retype',setp(d,path,{'kind':'base','name':'boolean'})
        if isinstance(v,dict) and v.get('kind')=='reference': yield 'ref2base',setp(d,path,{'kind':'base','name':'string'})
        if isinstance(path[-1],str) and path[-1]=='optional' and v is True: yield 'unopt',delp(d,path)
        if isinstance(v,dict) and 'name' in v and 'type' in v and 'optional' not in v and 'kind' not in v and len(path)>=2 and path[-2]=='properties': yield 'mkopt',setp(d,path+('optional',),True)
kinds=[('structures',model.Structure),('enumerations',model.Enum),('typeAliases',model.TypeAlias),('requests',model.Request),('notifications',model.Notification)]
res=collections.Counter(); ex={}
for key,cls in kinds:
    for d in doc[key]:
        try:
            a=cls(**d); b=cls(**d)
            r=(a==b)
            if r is not True: res[(key,'self-eq',str(r))]+=1
        except Exception as e:
            res[(key,'self-eq-raises',type(e).__name__)]+=1; ex.setdefault((key,'self-eq-raises',type(e).__name__), d.get('name') or d.get('method'))
        for kind,d2 in edits(d):
            try: b=cls(**d2)
            except Exception as e:
                res[(key,kind,'load-fails:'+type(e).__name__)]+=1; continue
            try:
                r=(a==b)
                if r is not False:
                    res[(key,kind,'EQUAL')]+=1; ex.setdefault((key,kind,'EQUAL'),(d.get('name') or d.get('method')))
                else: res[(key,kind,'ok')]+=1
            except Exception as e:
                res[(key,kind,'raises:'+type(e).__name__)]+=1
for k,v in sorted(res.items()): print(k,v,ex.get(k,''))
