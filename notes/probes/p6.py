import json, sys, time, collections
sys.path.insert(0,'/repo/packages/python'); sys.path.insert(0,'/tmp/probe')
from p3 import *
from lsprotocol import types as lsp, converters
conv=converters.get_converter()
def lost(out,j,path=''):
    """return list of paths where non-null data of j is missing/changed in out"""
    if isinstance(j,dict):
        if not isinstance(out,dict): return [path+':type']
        r=[]
        for k,v in j.items():
            if v is None: continue
            if k not in out: r.append(path+'.'+k+':missing')
            else: r+=lost(out[k],v,path+'.'+k)
        for k,v in out.items():
            if k not in j and v is not None and k not in('jsonrpc',): r.append(path+'.'+k+':extra')
        return r
    if isinstance(j,list):
        if not isinstance(out,(list,tuple)) or len(out)!=len(j): return [path+':len']
        r=[]
        for i,(a,b) in enumerate(zip(out,j)): r+=lost(a,b,path+'[]')
        return r
    if isinstance(j,bool) or isinstance(out,bool):
        return [] if (out is j) else [path+':val']
    return [] if out==j else [path+':val']
K=int(sys.argv[1]) if __name__=="__main__" else 0
viol=collections.Counter(); ex={}
n=0; t0=time.time()
for name in S:
    cls=getattr(lsp,name)
    for c,j in enum({'kind':'reference','name':name},K):
        n+=1
        try:
            o=conv.structure(j,cls)
            u=json.loads(json.dumps(conv.unstructure(o,cls)))
            l=lost(u,j)
            if l:
                key=(name,'loss',tuple(sorted(set(l)))[:3])
                viol[key]+=1; ex.setdefault(key,j)
        except Exception as e:
            msg=type(e).__name__
            key=(name,'raise',msg); viol[key]+=1; ex.setdefault(key,j)
print(n,time.time()-t0,len(viol))
for k,v in sorted(viol.items()): print(k,v,json.dumps(ex[k])[:160])
