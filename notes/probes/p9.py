import sys, time, threading
sys.path.insert(0,'/repo/packages/python')
from lsprotocol import types as lsp, _hooks, converters
import attrs
LOCAL={'_register_capabilities_hooks','_register_required_structure_hooks','_register_custom_property_hooks'}
class Sched:
    def __init__(self, n, choices):
        self.n=n; self.sems=[threading.Semaphore(0) for _ in range(n)]
        self.done=[False]*n; self.choices=list(choices); self.trace=[]; self.points=[]
        self.errors=[None]*n; self.main=threading.Semaphore(0)
    def tracer(self, tid):
        def tr(frame, event, arg):
            co=frame.f_code; fn=co.co_filename
            if fn.endswith('lsprotocol/_hooks.py') or fn.endswith('lsprotocol/converters.py'):
                if co.co_name in LOCAL or co.co_qualname.split('.')[0] in LOCAL:
                    return None
                if event=='line': self.yield_(tid,(co.co_name,frame.f_lineno))
                return tr
            return None
        return tr
    def yield_(self, tid, where):
        enabled=[i for i in range(self.n) if not self.done[i]]
        order=[tid]+[i for i in enabled if i!=tid]
        i=len(self.trace)
        idx=self.choices[i] if i<len(self.choices) else 0
        self.trace.append(idx); self.points.append((tid,where,len(order)))
        nxt=order[idx]
        if nxt!=tid:
            self.sems[nxt].release(); self.sems[tid].acquire()
    def finish(self, tid):
        self.done[tid]=True
        enabled=[i for i in range(self.n) if not self.done[i]]
        if enabled: self.sems[enabled[0]].release()
        else: self.main.release()
    def run(self, bodies):
        ths=[]
        for i,b in enumerate(bodies):
            def target(i=i,b=b):
                self.sems[i].acquire(); sys.settrace(self.tracer(i))
                try: b()
                except BaseException as e: self.errors[i]=repr(e)
                finally: sys.settrace(None); self.finish(i)
            t=threading.Thread(target=target); t.start(); ths.append(t)
        self.sems[0].release(); self.main.acquire()
        for t in ths: t.join()
full=dict(lsp.ALL_TYPES_MAP); REG=lsp.ALL_TYPES_MAP
names=['Position','Range','Location','LSPAny']
orig={n:[(a,a.type) for a in attrs.fields(full[n])] for n in names if isinstance(full[n],type) and attrs.has(full[n])}
def reset():
    REG.clear(); REG.update({n:full[n] for n in names})
    _hooks._resolved_forward_references=False
    for n,lst in orig.items():
        for a,t in lst: object.__setattr__(a,'type',t)
        if '__attrs_types_resolved__' in full[n].__dict__: delattr(full[n],'__attrs_types_resolved__')
def body():
    c=converters.get_converter()
    c.structure({'start':{'line':1,'character':2},'end':{'line':1,'character':3}}, lsp.Range)
stats={'runs':0,'bad':0,'sigs':set()}
def explore(n,bound):
    def rec(prefix):
        reset(); s=Sched(n,prefix); s.run([body]*n); stats['runs']+=1
        if any(s.errors):
            stats['bad']+=1; stats['sigs'].add(tuple(e.split('(')[0] if e else None for e in s.errors))
        # count preemptions in prefix
        pre=0
        for i,(tid,where,k) in enumerate(s.points):
            c=s.trace[i]
            if i<len(prefix):
                if c!=0: pre+=1
                continue
            if pre+1>bound: break
            for alt in range(1,k):
                rec(s.trace[:i]+[alt])
    rec([])
N=int(sys.argv[1]); B=int(sys.argv[2])
t0=time.time(); reset(); s=Sched(N,[]); s.run([body]*N); print('points',len(s.points), 'per-thread',len(s.points)//N)
explore(N,B); print('N',N,'bound',B,stats['runs'],'bad',stats['bad'],stats['sigs'],round(time.time()-t0,1),'s')
