import json, sys, time, collections, itertools
m=json.load(open('/repo/generator/lsp.json'))
S={s['name']:s for s in m['structures']}
A={a['name']:a for a in m['typeAliases']}
E={e['name']:e for e in m['enumerations']}
def props(name):
    s=S[name]; out=list(s['properties']); names={p['name'] for p in out}
    for e in s.get('extends',[])+s.get('mixins',[]):
        for p in props(e['name']):
            if p['name'] not in names:
                out.append(p); names.add(p['name'])
    return out
BASE={'string':['s','','é✓𝄞'],'integer':[0,-1,2**31-1,-2**31],'uinteger':[0,1,2**31-1],'decimal':[0.5,1,-2.5e10],'boolean':[True,False],'null':[None],'DocumentUri':['file:///a'],'URI':['file:///a'],'RegExp':['.*']}
ANY=[None,True,0,1.5,'s',[],[1,'a',None],{}, {'k':{'n':[1]}}]
def enum(t,k):
    """yield (cost,value) all values with cost<=k"""
    kind=t['kind']
    if kind=='base':
        for i,v in enumerate(BASE[t['name']]):
            c=0 if i==0 else 1
            if c<=k: yield c,v
    elif kind=='stringLiteral':
        yield 0,t['value']
    elif kind=='reference':
        n=t['name']
        if n in S:
            yield from enum_obj(props(n),k)
        elif n in A:
            if n=='LSPAny':
                for i,v in enumerate(ANY):
                    c=0 if i==0 else 1
                    if c<=k: yield c,v
            elif n=='LSPObject':
                yield 0,{}
                if k>=1: yield 1,{'k':1}
            elif n=='LSPArray':
                yield 0,[]
                if k>=1: yield 1,[1,'a']
            else: yield from enum(A[n]['type'],k)
        else:
            e=E[n]
            for i,v in enumerate(e['values']):
                c=0 if i==0 else 1
                if c<=k: yield c,v['value']
            if e.get('supportsCustomValues') and k>=1:
                yield 1, ('custom/x' if e['type']['name']=='string' else 12345)
    elif kind=='array':
        yield 0,[]
        if k>=1:
            for c,v in enum(t['element'],k-1): yield c+1,[v]
        if k>=2:
            for c1,v1 in enum(t['element'],k-2):
                for c2,v2 in enum(t['element'],k-2-c1):
                    yield c1+c2+2,[v1,v2]
    elif kind=='map':
        yield 0,{}
        if k>=1:
            for ck,kv in enum(t['key'],k-1):
                for c,v in enum(t['value'],k-1-ck): yield ck+c+1,{str(kv):v}
    elif kind=='or':
        for i,it in enumerate(t['items']):
            c0=0 if i==0 else 1
            if c0<=k:
                for c,v in enum(it,k-c0): yield c+c0,v
    elif kind=='and':
        ps=[]
        for it in t['items']:
            for p in props(it['name']):
                if p['name'] not in [q['name'] for q in ps]: ps.append(p)
        yield from enum_obj(ps,k)
    elif kind=='tuple':
        def rec(i,k):
            if i==len(t['items']): yield 0,[]; return
            for c,v in enum(t['items'][i],k):
                for c2,r in rec(i+1,k-c): yield c+c2,[v]+r
        yield from rec(0,k)
    elif kind=='literal':
        yield from enum_obj(t['value']['properties'],k)
def enum_obj(ps,k):
    def rec(i,k):
        if i==len(ps):
            yield 0,{}; return
        p=ps[i]
        if p.get('optional'):
            for c2,r in rec(i+1,k): yield c2,r
            if k>=1:
                for c,v in enum(p['type'],k-1):
                    for c2,r in rec(i+1,k-1-c):
                        d=dict(r); d[p['name']]=v; yield c+1+c2,d
        else:
            for c,v in enum(p['type'],k):
                for c2,r in rec(i+1,k-c):
                    d=dict(r); d[p['name']]=v; yield c+c2,d
    yield from rec(0,k)
if __name__=='__main__':
    K=int(sys.argv[1])
    t0=time.time(); tot=0; per=[]
    for n in S:
        c=sum(1 for _ in enum({'kind':'reference','name':n},K)); tot+=c; per.append((c,n))
    per.sort()
    print(K,tot,time.time()-t0, per[-8:])
