import json, sys, time, collections, typing, enum as enum_mod
sys.path.insert(0,'/repo/packages/python'); sys.path.insert(0,'/tmp/probe')
from p3 import *
import collections.abc
from lsprotocol import types as lsp, converters
import attrs
conv=converters.get_converter()
ANYT={lsp.LSPAny, typing.Any, lsp.LSPObject, object}
def conf(v, t, path, out):
    """report structural typing problems of value v against annotation t"""
    if t in ANYT or t is typing.Any: return
    o=typing.get_origin(t)
    if o is typing.Union:
        args=typing.get_args(t)
        if v is None and type(None) in args: return
        errs=[]
        for a in args:
            if a is type(None): continue
            e=[]; conf(v,a,path,e)
            if not e: return
            errs.append(e)
        out.append((path,'no-union-alt',type(v).__name__, str(t)[:80])); return
    if o in (collections.abc.Sequence, list, typing.Sequence):
        if not isinstance(v,(list,tuple)) : out.append((path,'not-seq',type(v).__name__)); return
        for i,x in enumerate(v): conf(x, typing.get_args(t)[0], path+'[]', out)
        return
    if o is tuple:
        if not isinstance(v,tuple): out.append((path,'not-tuple',type(v).__name__)); return
        for x,a in zip(v,typing.get_args(t)): conf(x,a,path+'()',out)
        return
    if o is dict:
        if not isinstance(v,dict): out.append((path,'not-dict',type(v).__name__)); return
        for k,x in v.items(): conf(x, typing.get_args(t)[1], path+'{}', out)
        return
    if o is typing.Literal:
        if v not in typing.get_args(t): out.append((path,'bad-literal',v))
        return
    if isinstance(t,type):
        if attrs.has(t):
            if not isinstance(v,t): out.append((path,'not-instance',type(v).__name__,t.__name__)); return
            for a in attrs.fields(t): conf(getattr(v,a.name), a.type, path+'.'+a.name, out)
            return
        if issubclass(t,enum_mod.Enum):
            if isinstance(v,t): return
            try: t(v); return
            except Exception: out.append((path,'not-enum-member',v,t.__name__)); return
        if t is float and isinstance(v,(int,float)) and not isinstance(v,bool): return
        if t is int and isinstance(v,bool): out.append((path,'bool-for-int',v)); return
        if not isinstance(v,t): out.append((path,'not-prim',type(v).__name__,t.__name__))
        return
    out.append((path,'unknown-annotation',str(t)))
K=int(sys.argv[1])
viol=collections.Counter(); ex={}; n=0
roots=[(n_,getattr(lsp,n_),{'kind':'reference','name':n_}) for n_ in S]
for r in m['requests']:
    req,resp,_,_=lsp.METHOD_TO_TYPES[r['method']]
    roots.append(('resp '+r['method'],resp,None))
for name,cls,t in roots:
    if t is None:
        r=[x for x in m['requests'] if 'resp '+x['method']==name][0]
        gen=((c,{'jsonrpc':'2.0','id':1,'result':v}) for c,v in enum(r['result'],K))
    else: gen=enum(t,K)
    for c,j in gen:
        n+=1
        try: o=conv.structure(j,cls)
        except Exception: continue
        out=[]; conf(o,cls,'',out)
        for e in out:
            key=(name,)+tuple(str(x) for x in e); viol[key]+=1; ex.setdefault(key,j)
print(n,len(viol))
for k,v in sorted(viol.items()): print(k,v,json.dumps(ex[k])[:150])
