import json, sys, time, collections
sys.path.insert(0,'/repo/packages/python'); sys.path.insert(0,'/tmp/probe')
from p3 import *
from p6 import lost
from lsprotocol import types as lsp, converters
conv=converters.get_converter()
K=int(sys.argv[1])
viol=collections.Counter(); ex={}
n=0; t0=time.time()
def run(label, cls, gen):
    global n
    for c,j in gen:
        n+=1
        try:
            o=conv.structure(j,cls)
            u=json.loads(json.dumps(conv.unstructure(o,cls)))
            l=lost(u,j)
            if l:
                key=(label,'loss',tuple(sorted(set(l)))[:3]); viol[key]+=1; ex.setdefault(key,j)
        except Exception as e:
            def leaf(e):
                while hasattr(e,'exceptions') and e.exceptions: e=e.exceptions[0]
                return type(e).__name__+':'+str(e)[:80]
            key=(label,'raise',leaf(e)); viol[key]+=1; ex.setdefault(key,j)
for r in m['requests']:
    req,resp,params,reg=lsp.METHOD_TO_TYPES[r['method']]
    if 'result' in r:
        def g():
            for c,v in enum(r['result'],K): yield c,{'jsonrpc':'2.0','id':1,'result':v}
        run('resp '+r['method'],resp,g())
    if 'params' in r:
        def g():
            for c,v in enum(r['params'],K): yield c,{'jsonrpc':'2.0','id':1,'method':r['method'],'params':v}
        run('req '+r['method'],req,g())
for r in m['notifications']:
    req,resp,params,reg=lsp.METHOD_TO_TYPES[r['method']]
    if 'params' in r:
        def g():
            for c,v in enum(r['params'],K): yield c,{'jsonrpc':'2.0','method':r['method'],'params':v}
        run('not '+r['method'],req,g())
for a in A:
    if a in('LSPAny','LSPObject','LSPArray'): continue
    run('alias '+a, getattr(lsp,a), enum({'kind':'reference','name':a},K))
print(n,time.time()-t0,len(viol))
for k,v in sorted(viol.items()): print(k,v,json.dumps(ex[k])[:200])
