import json, sys, collections, keyword, re
sys.path.insert(0,'/repo/packages/python'); sys.path.insert(0,'/verif/notes/probes')
import p3
from p3 import *
p3.BASE['decimal']=[0.5,1.0,-2.5e10]
from lsprotocol import types as lsp, converters
import attrs
conv=converters.get_converter()
IMIN,IMAX=-2**31,2**31-1
def isint(j): return isinstance(j,int) and not isinstance(j,bool)
def null_adm(t): return t['kind']=='or' and any(i['kind']=='base' and i['name']=='null' for i in t['items'])
def valid(j,t):
    k=t['kind']
    if k=='base':
        n=t['name']
        if n in('string','DocumentUri','URI','RegExp'): return isinstance(j,str)
        if n=='integer': return isint(j) and IMIN<=j<=IMAX
        if n=='uinteger': return isint(j) and 0<=j<=IMAX
        if n=='decimal': return isinstance(j,float)
        if n=='boolean': return isinstance(j,bool)
        if n=='null': return j is None
    if k=='stringLiteral': return j==t['value']
    if k=='reference':
        n=t['name']
        if n in S: return vobj(j,props(n))
        if n in A:
            if n=='LSPAny': return True
            if n=='LSPObject': return isinstance(j,dict)
            if n=='LSPArray': return isinstance(j,list)
            return valid(j,A[n]['type'])
        e=E[n]; bt=e['type']['name']
        ok=isinstance(j,str) if bt=='string' else isint(j)
        return ok and (bool(e.get('supportsCustomValues')) or n=='CompletionItemKind' or j in [v['value'] for v in e['values']])
    if k=='array': return isinstance(j,list) and all(valid(x,t['element']) for x in j)
    if k=='map': return isinstance(j,dict) and all(valid(v,t['value']) for v in j.values())
    if k=='or': return any(valid(j,i) for i in t['items'])
    if k=='tuple': return isinstance(j,list) and len(j)==len(t['items']) and all(valid(x,i) for x,i in zip(j,t['items']))
    if k=='literal': return vobj(j,t['value']['properties'])
def vobj(j,ps):
    if not isinstance(j,dict): return False
    names={p['name'] for p in ps}
    if ps and any(k not in names for k in j): return False   # strict, for choosing the constructor class
    return all((p['name'] in j and valid(j[p['name']],p['type'])) or (p['name'] not in j and p.get('optional')) or (p['name'] not in j and null_adm(p['type'])) for p in ps)
def wire(attr):
    n=attr[:-1] if attr.endswith('_') else attr
    parts=n.split('_'); return parts[0]+''.join(p[:1].upper()+p[1:] for p in parts[1:])
def build(j,t):
    """-> (python object, normal form)"""
    k=t['kind']
    if k in('base','stringLiteral'): return j,j
    if k=='reference':
        n=t['name']
        if n in S:
            cls=getattr(lsp,n); amap={wire(a.name):a.name for a in attrs.fields(cls)}
            kw={}; nf={}
            for p in props(n):
                w=p['name']
                if w in j and j[w] is not None:
                    o,f=build(j[w],p['type']); kw[amap[w]]=o; nf[w]=f
                elif w in j and j[w] is None and (null_adm(p['type']) or p['type']==dict(kind='reference',name='LSPAny')):
                    kw[amap[w]]=None; 
                    if null_adm(p['type']) or not p.get('optional'): nf[w]=None
                else:
                    if null_adm(p['type']): nf[w]=None
                    if p['type']['kind']=='stringLiteral': nf[w]=p['type']['value']
            return cls(**kw), nf
        if n in A:
            if n in('LSPAny','LSPObject','LSPArray'): return j,j
            return build(j,A[n]['type'])
        e=E[n]
        try: return getattr(lsp,n)(j), j
        except ValueError: return j,j
    if k=='array':
        r=[build(x,t['element']) for x in j]; return [a for a,b in r],[b for a,b in r]
    if k=='map':
        r={kk:build(v,t['value']) for kk,v in j.items()}; return {kk:a for kk,(a,b) in r.items()},{kk:b for kk,(a,b) in r.items()}
    if k=='tuple':
        r=[build(x,i) for x,i in zip(j,t['items'])]; return tuple(a for a,b in r),[b for a,b in r]
    if k=='or':
        for i in t['items']:
            if valid(j,i): return build(j,i)
        raise Exception(('no alt',j,t))
    if k=='literal': return j,j
K=int(sys.argv[1])
bad=collections.Counter(); ex={}; n=0
for name in S:
    cls=getattr(lsp,name)
    if name=='LSPObject': continue
    for c,j in enum({'kind':'reference','name':name},K):
        n+=1
        try:
            obj,nf=build(j,{'kind':'reference','name':name})
        except Exception as e:
            key=(name,'ctor',type(e).__name__,str(e)[:60]); bad[key]+=1; ex.setdefault(key,j); continue
        u=json.loads(json.dumps(conv.unstructure(obj,cls)))
        if u!=nf:
            key=(name,'nf'); bad[key]+=1; ex.setdefault(key,(j,u,nf))
            continue
        try:
            u2=json.loads(json.dumps(conv.unstructure(conv.structure(u,cls),cls)))
            if u2!=u: key=(name,'restructure-diff'); bad[key]+=1; ex.setdefault(key,(u,u2))
        except Exception as e:
            key=(name,'restructure-raise'); bad[key]+=1; ex.setdefault(key,u)
print(n,len(bad))
for k,v in sorted(bad.items()): print(k,v,json.dumps(ex[k])[:300])
