#!/bin/bash
# usage: tools/eval_benign.sh <dir containing patch.diff> <name> [checks...]
# Applies a behaviour-preserving change in a scratch worktree, runs the test suite and the given checks
# (default: all, quick tier) against it via LSPVERIF_REPO.  Every check must stay silent (exit 0).
set -u
M="$1"; NAME="$2"; shift 2
CHECKS="${*:-C01 C02 C03 C04 C05 C06 C07 C08 C09 C10 C11 C12 C13 C14 C15 C16 C17 C18 C19 C20}"
WT=/tmp/mv/$NAME
OUT=/tmp/mv/$NAME.out
rm -rf "$OUT"; mkdir -p /tmp/mv "$OUT"
git -C /repo worktree remove --force "$WT" >/dev/null 2>&1
git -C /repo worktree add -q "$WT" HEAD || exit 2
if ! git -C "$WT" apply "$M/patch.diff" 2>"$OUT/apply.txt"; then echo "apply_failed=1" | tee -a "$OUT/summary.txt"; cat "$OUT/apply.txt"; git -C /repo worktree remove --force "$WT"; exit 3; fi
(cd "$WT" && /venv/bin/python -m pytest -q -p no:cacheprovider >"$OUT/tests.txt" 2>&1); echo "tests: $(tail -1 "$OUT/tests.txt")" | tee -a "$OUT/summary.txt"
for c in $CHECKS; do
  (cd /verif && LSPVERIF_REPO="$WT" LSPVERIF_EVIDENCE_DIR="$OUT/evidence" LSPVERIF_REPLAY_DIR="$OUT/replays" timeout 1800 ./check $c --tier "${TIER:-quick}" >"$OUT/$c.log" 2>&1)
  rc=$?
  nv=$(grep -c "^VIOLATION" "$OUT/$c.log")
  if [ $rc -ne 0 ] || [ $nv -ne 0 ]; then
    echo "ALARM $c exit=$rc violations=$nv $(grep -A1 '^VIOLATION' "$OUT/$c.log" | grep -v '^VIOLATION' | grep -v '^--' | head -1 | cut -c1-260) $(tail -2 "$OUT/$c.log" | cut -c1-200 | tr '\n' ' ')" | tee -a "$OUT/summary.txt"
  else
    echo "$c silent" | tee -a "$OUT/summary.txt"
  fi
done
git -C /repo worktree remove --force "$WT"
