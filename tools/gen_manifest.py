#!/usr/bin/env python3
"""Regenerates /verif/MANIFEST.json from the table below (keeps the manifest valid at all times)."""
import json
import os

VERIF = os.path.dirname(os.path.dirname(os.path.abspath(__file__)))

CHECKS = {
    "C01": dict(
        engine="VSE",
        technique="bounded exhaustive enumeration of metamodel derivations (deviation-bounded value-space exploration), each replayed on converter.structure/unstructure and judged by the reference model",
        text="Every derivation of the metamodel grammar with <=k deviations from the minimal and maximal value of every structure, alias and envelope root is structured and re-serialised by the real converter; the output must be a normal form of the input under some strict reading. Exhaustive within the stated k and alphabets.",
        note="Trusted: MM reference semantics (lspverif/mm.py), alphabets of DESIGN 2.2, compositionality of converters (deviation bound per root).",
        ref="3/C01"),
    "C03": dict(
        engine="VSE",
        technique="bounded exhaustive enumeration of metamodel derivations, each structured by the real converter and the whole object graph walked against annotations and metamodel",
        text="Every derivation (<=k deviations, both base points) of every root is structured; the returned object graph is walked attribute by attribute against the resolved attrs annotations and, in lock-step with the input, against the metamodel (at unions: instance of an alternative valid for the input; LSPAny positions unchanged).",
        note="Trusted: MM, alphabets, compositionality; values that fail to structure belong to C01.",
        ref="3/C03"),
    "C14": dict(
        engine="VSE",
        technique="exhaustive enumeration of union sites x alternatives x bounded shapes, each embedded in its owner root and structured by the real converter",
        text="All union occurrences of the metamodel (declared or-types and references to or-aliases) x every alternative x {cost<=k neighbourhood, maximal value, ordered pairs for arrays}; each must structure without error into an instance of an alternative valid for the value; a (site, alternative) without execution fails as vacuous.",
        note="Trusted: MM; unions of partialResult/registrationOptions/errorData have no generated class to structure into and are listed in the evidence.",
        ref="3/C14"),
}

PENDING_REASON = "check not built yet in this session (planned, see DESIGN.md section 3); not claimed until it exists"


def main():
    props = [json.loads(l)["id"] for l in open(os.path.join(VERIF, "properties.jsonl"))]
    checks = []
    for pid in props:
        c = CHECKS.get(pid)
        if not c:
            continue
        checks.append({
            "property_id": pid,
            "quick_cmd": "./check %s --tier quick" % pid,
            "thorough_cmd": "./check %s --tier thorough" % pid,
            "evidence_file": "evidence/%s.json" % pid,
            "replay_cmd_template": "./check %s --replay {path}" % pid,
            "engine": c["engine"],
            "level_claimed": {"category": "model_checking", "text": c["text"], "design_ref": "DESIGN.md " + c["ref"]},
            "level_note": c["note"],
            "technique": c["technique"],
        })
    na = [{"property_id": p, "reason": NOT_APPLICABLE.get(p, PENDING_REASON)} for p in props if p not in CHECKS]
    man = {
        "version": 1,
        "setup_cmd": "./setup.sh",
        "hooks": {
            "guard": "LSPROTOCOL_VERIF",
            "enable": "no source hooks are needed: all seams (settrace scheduler, injected module globals, patched uuid4) are attached from outside by the checks",
            "baseline_off_cmd": "cd /repo && /venv/bin/python -m pytest -ra -q -p no:cacheprovider --timeout=900 --continue-on-collection-errors",
            "source_commits": [],
            "add_only": True,
        },
        "engines": ENGINES,
        "checks": checks,
        "not_applicable": na,
        "notes": "All checks are bounded exhaustive explorations written in Python (lspverif/); known findings in known_findings.json; see DESIGN.md.",
    }
    with open(os.path.join(VERIF, "MANIFEST.json"), "w") as f:
        json.dump(man, f, indent=1)
    try:
        import jsonschema
        jsonschema.validate(man, json.load(open("/root/.vp/MANIFEST.schema.json")))
        print("MANIFEST.json valid;", len(checks), "checks,", len(na), "not claimed")
    except ImportError:
        print("MANIFEST.json written (jsonschema not available to validate)")


NOT_APPLICABLE = {}

ENGINES = [
    {"name": "MM", "path": "lspverif/mm.py", "serves_properties": [], "kind_free_text": "reference model of the LSP metamodel (oracle)"},
    {"name": "VSE", "path": "lspverif/vse.py", "serves_properties": ["C01", "C03", "C14"], "kind_free_text": "deviation-bounded exhaustive value-space explorer over the metamodel grammar"},
]

if __name__ == "__main__":
    main()
