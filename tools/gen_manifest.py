#!/usr/bin/env python3
"""Regenerates /verif/MANIFEST.json from the table below (keeps the manifest valid at all times)."""
import json
import os

VERIF = os.path.dirname(os.path.dirname(os.path.abspath(__file__)))

CHECKS = {
    "C01": dict(
        engine="VSE",
        technique="bounded exhaustive enumeration of metamodel derivations (deviation-bounded value-space exploration), each replayed on converter.structure/unstructure and judged by the reference model",
        text="Every derivation of the metamodel grammar with <=k deviations from the minimal and maximal value of every structure, alias and envelope root is structured and re-serialised by the real converter; the output must be a normal form of the input under some strict reading; also every union site x alternative x shape (maximal alternatives, heterogeneous arrays, arrays of 101 and 1025 elements, other member orders, key-name strings) embedded in its owner roots, every True test vector, and JSON nested 600 / 150 levels deep at every position where any JSON is valid. Exhaustive within the stated k and alphabets; thorough tier repeats the quick exploration under two more hash seeds.",
        note="Trusted: MM reference semantics (lspverif/mm.py), alphabets of DESIGN 2.2, compositionality of converters (deviation bound per root).",
        ref="3/C01"),
    "C03": dict(
        engine="VSE",
        technique="bounded exhaustive enumeration of metamodel derivations, each structured by the real converter and the whole object graph walked against annotations and metamodel",
        text="Every derivation (<=k deviations, both base points) of every root, plus every union site x alternative x shape (single-element and heterogeneous arrays), is structured; the returned object graph is walked attribute by attribute against the resolved attrs annotations and, in lock-step with the input, against the metamodel (at unions: instance of an alternative valid for the input; LSPAny positions unchanged); single closed-enum edits that make a value invalid are structured too: whatever structuring returns must be well-typed; histories: the same shape structured at two union positions, and results edited by the caller before everything is structured again (no container shared between results); an application-defined subclass of every structure class must be returned as an instance of that subclass.",
        note="Trusted: MM, alphabets, compositionality; values that fail to structure belong to C01.",
        ref="3/C03"),
    "C14": dict(
        engine="VSE",
        technique="exhaustive enumeration of union sites x alternatives x bounded shapes, each embedded in its owner root and structured by the real converter",
        text="All union occurrences of the metamodel (declared or-types and references to or-aliases) x every alternative x {cost<=k neighbourhood, maximal value, ordered pairs for arrays, arrays of 101 and 1025 elements, members in reversed and rotated order, key-name and look-alike strings ('42', '007', 'true', '[1, 2]' ...) at string alternatives}; each must structure without error into an instance of an alternative valid for the value; a (site, alternative) without execution fails as vacuous.",
        note="Trusted: MM; unions of partialResult/registrationOptions/errorData have no generated class to structure into and are listed in the evidence.",
        ref="3/C14"),
    "C02": dict(
        engine="VSE",
        technique="bounded exhaustive enumeration of metamodel derivations x choice-sequence exploration of union alternatives; objects built by the public constructors, output compared for exact equality with the reference normal form",
        text="Every derivation (<=k deviations) of every root x every admissible class choice at union positions (<=d non-default choices) x {literals passed, literals defaulted} is built with the public constructors only, unstructured, compared exactly with MM.nf, re-structured and re-serialised.",
        note="Trusted: MM.nf and the documented snake_case rule (independent of the converter's rename code).",
        ref="3/C02"),
    "C10": dict(
        engine="VSE",
        technique="exhaustive enumeration of (class, attribute, set/unset, surrounding value) over all generated classes, executed on constructors, unstructure and structure",
        text="All attributes of all structure, envelope and and-type classes are toggled between unset and set while the surrounding object ranges over the cost<=1 neighbourhood and the maximal value; key presence / null / literal expectations come from MM, never from the generated special-property table; parse path with the property absent; collision histories: every ordered pair of classes sharing attribute names but differing in what is always written, each in a freshly forked process.",
        note="Trusted: MM's syntactic reading of null-admitting (T|null), envelope rule (method, jsonrpc, result).",
        ref="3/C10"),
    "C11": dict(
        engine="VSE",
        technique="exhaustive enumeration of single-field spec-invalid edits over bounded surrounding values; each edited value judged invalid by the reference model must make converter.structure raise",
        text="All structures x surrounding values (k<=1/2) x every eligible property (root node and nested nodes) x {remove required, 6 out-of-range numbers, outside-enum values, changed literal}.",
        note="Trusted: MM validity; eligibility read narrowly (directly typed properties).",
        ref="3/C11"),
    "C12": dict(
        engine="GRID",
        technique="exhaustive enumeration of (integer-typed property x boundary grid x entry point) and of validator calls over an argument alphabet",
        text="All directly integer/uinteger-typed properties x boundary grid (thorough: +-1024 around each bound) x {constructor, converter}: accept iff in range, same verdict; validator functions over instance x attribute x value alphabets return True or raise ValueError naming class and attribute; call histories (an equal non-int first, then the int, and the reverse) at validators and entry points.",
        note="Decided on a grid, not on all ints.",
        ref="3/C12"),
    "C13": dict(
        engine="VSE",
        technique="exhaustive comparison of enum member multisets plus enumeration of every (enum use site x value) executed on the real converter",
        text="40 enumerations compared with the metamodel as multisets (both directions); every reference to an enumeration x every declared value (+custom values for open enums, incl. the names of declared values and other-case spellings) must structure and round-trip in its owner root; outside values at closed enums must be rejected.",
        note="Trusted: MM validity for deciding that an outside value makes the message invalid.",
        ref="3/C13"),
    "C15": dict(
        engine="VSE",
        technique="bounded exhaustive enumeration of derivations x protocol-object nodes x fresh property names x payloads, differential oracle against the unextended value",
        text="Every derivation (k<=1/2 + maximal) and every union-site shape (single-element and heterogeneous arrays) x every protocol-object node x fresh names (incl. the Python attribute spelling of every declared name, look-alikes, fragments and concatenations of declared and sibling-alternative names, the empty name) x payloads (incl. one nested 600 levels deep): structuring the extended value must succeed, equal the original result and re-serialise identically.",
        note="Names are declared nowhere in the metamodel; data positions (LSPAny, maps) excluded.",
        ref="3/C15"),
    "C20": dict(
        engine="GRID",
        technique="exhaustive enumeration of all pairs/triples of positions over a boundary grid, all ranges/locations built from them, all operators, against tuple comparison",
        text="25 positions, 625 ordered pairs x 6 operators, trichotomy, transitivity on all triples, 25 ranges and 50 locations pairwise, 16 nearly identical uris pairwise, unrelated, look-alike and cross-class operands on both sides, reprs; compare - mutate - compare histories.",
        note="Decided on a 5-value grid per coordinate.",
        ref="3/C20"),
    "C04": dict(
        engine="BISIM",
        technique="exhaustive product-graph walk metamodel x imported Python package (every declaration and flattened property x facet), both directions",
        text="Every structure/enum/alias/and-type and every flattened property is compared with the imported package: attribute set bijection, attribute name, required-ness, annotation as typing object, literal default, validator verdict table; reverse walk over every class/enum of the module; duplicate definitions in the text of types.py; the same walk on the output of a second generation in one interpreter for an evolved model.",
        note="Trusted: MM mapping table (Appendix B); validators judged on clear-cut values.",
        ref="3/C04"),
    "C05": dict(
        engine="BISIM",
        technique="exhaustive pairwise comparison of every top-level statement/item of the committed generated files with the output of the real plugins (the tree as it is; rust in both test-directory configurations)",
        text="python and rust plugins are run through the real CLI; all 795 statements of types.py (AST) and all items of lib.rs (after rustfmt, plus byte equality) compared in both directions; the rust plugin with an empty test directory and with tests/rust/src/main.rs present. Degenerate exploration (one tree), total enumeration of items.",
        note="rustfmt stands for cargo fmt; Python formatting modelled by AST equality with docstring whitespace normalised.",
        ref="3/C05"),
    "C09": dict(
        engine="BISIM",
        technique="exhaustive enumeration of methods x table facets and of registry names, both directions, on the imported package",
        text="95 methods x {entry, request/response class, params, registration options, default method, envelope id/jsonrpc/params/result annotations, constant, direction}; no extra keys; every protocol type object (incl. underscore names) in ALL_TYPES_MAP under its own name and vice versa, before and after the first get_converter(); all attrs fields resolved after it.",
        note="Class-name rule from the documentation (typeName else UpperCamel of method).",
        ref="3/C09"),
    "C16": dict(
        engine="HIST",
        technique="explicit-state breadth-first exploration of generator run histories (runs, stale files, fresh directories) with set-order and uuid seams, on the real entry point; plus real CLI processes per hash seed",
        text="Per plugin all histories up to length 3 (dotnet/testdata quick: 2) over {Run(model A | evolved model B | (dotnet, testdata) a case-only rename K of A x set order x uuid stream), StaleOwned (incl. generated names with other bytes), CorruptOwned, CrlfOwned, StaleForeign, Fresh}; after every Run the owned files are byte-identical to the reference run, foreign files untouched, no injected uuid in the output; CLI runs under several PYTHONHASHSEEDs, also for two-file model lists (extension declarations; alias literals where the plugin accepts them); cross-plugin histories (every ordered pair/triple of plugins in one process on one model path).",
        note="Assumes the generator reads only model files and its output/test directories; dotnet/testdata use small model slices in the quick tier.",
        ref="3/C16"),
    "C18": dict(
        engine="HIST",
        technique="exhaustive enumeration of single schema-valid additions (read-back), document lists up to length 3 (merge), single structural edits at every JSON node (equality) and single schema-violating edits per definition x rule x site x plugin (gate), all on the real loader and entry point",
        text="(a) committed model + every (definition x optional property) addition and every kind of type expression read back losslessly (also annotation strings with CRLF, tabs, outer blanks, non-ASCII); (b) all lists <=3 over 4 documents merged = concatenation, inputs not altered, repeated loads equal; (c) every declaration x every single structural edit, whole models differing only at a section end: equality verdicts, no raise; (d) every schema definition x rule kind x site class x 5 plugins, the violating document written to a path that held a valid model in the previous run, and given as first / last / middle file of a model list, and run through the real CLI under python -O: command fails, no plugin called, nothing written.",
        note="Structural = everything except annotation fields; plugins observed through recording wrappers on their public generate entry point.",
        ref="3/C18"),
    "C19": dict(
        engine="SCHED",
        technique="stateless preemption-bounded exploration of all interleavings of real threads at line granularity of the package modules (iterative context bounding), plus exhaustive enumeration of converter-creation histories in fresh processes",
        text="N=2/3 real threads do get_converter()+battery as first use under a cooperative scheduler (settrace line events, cooperative replacement of package locks, deadlock detection); every schedule within the preemption bound is executed and compared with the sequential reference. All creation histories up to length 3/4 over {fresh, user-supplied, detailed_validation off, forbid_extra_keys, omit_if_default, re-register, user structure+unstructure hooks, drop-and-collect, creation interrupted by an exception} in freshly forked processes, plus 100 sequential creations and three drop-and-recreate histories of 50-60 events; every observation starts with freshly defined application subclasses of two package classes. Every execution is forked from a pristine import of the package; bounds are iterated (0, 1, 2 ...) under a wall-clock cap and the evidence states the highest completed bound.",
        note="Library code (attrs/cattrs/typing) is atomic; switches only at line boundaries of lsprotocol's own modules (of the generated types.py: only functions that write module-level state); functions audited (AST) as converter-local run atomically; locks created by package code are cooperative.",
        ref="3/C19"),
    "C17": dict(
        engine="BISIM",
        technique="exhaustive enumeration of every vector the plugin emits and of every (valid, value) pair of its generate functions per type expression, each judged by the strict reference validator and (True vectors) executed on the Python converter",
        text="All files produced by the real generate() for the committed model: name pattern <Class>-<True|False>-<hash>, message class, label == strict MM validity, a True vector per message class, every True vector structured by the converter; plus every pair yielded by generate_for_type for every distinct type expression (reaches label decisions that never make it into a file); plus all vectors of a second generate() in the same interpreter on an evolved model slice.",
        note="Strict reading; property-less objects are open; responses may carry result and error; metamodel openness of enums.",
        ref="3/C17"),
    "C07": dict(
        engine="BISIM",
        technique="exhaustive product-graph walk metamodel x parsed lib.rs (every struct, field, enum value, alias variant, method), both directions, on the plugin's output and the committed file",
        text="Every structure (serde field-name set, mapped type, Option, proposed gate), every enumeration (serde discriminants as multiset; Serialize/Deserialize arms of integer enums), every or-alias (untagged enum variants), every method (message structs, method-enum rename); on the plugin output for the committed model, on the committed lib.rs, and on a second generation in the same interpreter for an evolved model.",
        note="Own token-level parser for the emitted Rust subset (cross-checked by item counts and rustfmt acceptance); the crate cannot be compiled offline.",
        ref="3/C07"),
    "C08": dict(
        engine="BISIM",
        technique="exhaustive product-graph walk metamodel x parsed .cs files of the dotnet plugin's output (every record, data member, enum value, message class attribute)",
        text="Every structure (data member set, mapped C# type, nullable, null-ignoring, JSON-constructor assignment), every enumeration, every method (LSPRequest method string and pairing, LSPResponse pairing, LSPMethods catalogue, Direction of request and notification classes, envelope member types); also on a second generation in the same interpreter for an evolved model.",
        note="Own token-level (layout-independent) parser for the emitted C# subset; no .NET toolchain exists in the image, so the text is checked as the property says.",
        ref="3/C08"),
    "C06": dict(
        engine="EVO",
        technique="breadth-first exploration of spec-evolution edit sequences (explicit states = metamodel documents, de-duplicated on canonical hash); per state the four real plugins are run and the artefact checkers (BISIM C04/C07/C08/C09, VSE C01/C02/C03/C10 on the affected region, C17 on changed vectors) are the state invariant",
        text="Depth 1 over the edit alphabet (new structures, properties x owner x type x name x optionality, inheritance, enumerations, requests/notifications with and without typeName, marks, removal) plus dependent depth-2 sequences; every state: schema validity, plugins through the real CLI, import of the emitted module with the unchanged runtime files in a fresh interpreter, all artefact checkers for the evolved model.",
        note="Edits stay inside the documented input discipline; sequences longer than 2 and edits outside the alphabet are not covered; testdata plugin exercised through generate().",
        ref="3/C06"),
}

PENDING_REASON = "check not built yet in this session (planned, see DESIGN.md section 3); not claimed until it exists"


def main():
    props = [json.loads(l)["id"] for l in open(os.path.join(VERIF, "properties.jsonl"))]
    checks = []
    for pid in props:
        c = CHECKS.get(pid)
        if not c:
            continue
        checks.append({
            "property_id": pid,
            "quick_cmd": "./check %s --tier quick" % pid,
            "thorough_cmd": "./check %s --tier thorough" % pid,
            "evidence_file": "evidence/%s.json" % pid,
            "replay_cmd_template": "./check %s --replay {path}" % pid,
            "engine": c["engine"],
            "level_claimed": {"category": "model_checking", "text": c["text"], "design_ref": "DESIGN.md " + c["ref"]},
            "level_note": c["note"],
            "technique": c["technique"],
        })
    na = [{"property_id": p, "reason": NOT_APPLICABLE.get(p, PENDING_REASON)} for p in props if p not in CHECKS]
    man = {
        "version": 1,
        "setup_cmd": "./setup.sh",
        "hooks": {
            "guard": "LSPROTOCOL_VERIF",
            "enable": "no source hooks are needed: all seams (settrace scheduler, injected module globals, patched uuid4) are attached from outside by the checks",
            "baseline_off_cmd": "cd /repo && /venv/bin/python -m pytest -ra -q -p no:cacheprovider --timeout=900 --continue-on-collection-errors",
            "source_commits": [],
            "add_only": True,
        },
        "engines": ENGINES,
        "checks": checks,
        "not_applicable": na,
        "notes": "All checks are bounded exhaustive explorations written in Python (lspverif/); known findings in known_findings.json; see DESIGN.md.",
    }
    with open(os.path.join(VERIF, "MANIFEST.json"), "w") as f:
        json.dump(man, f, indent=1)
    try:
        import jsonschema
        jsonschema.validate(man, json.load(open("/root/.vp/MANIFEST.schema.json")))
        print("MANIFEST.json valid;", len(checks), "checks,", len(na), "not claimed")
    except ImportError:
        print("MANIFEST.json written (jsonschema not available to validate)")


NOT_APPLICABLE = {}

ENGINES = [
    {"name": "MM", "path": "lspverif/mm.py", "serves_properties": [], "kind_free_text": "reference model of the LSP metamodel (oracle)"},
    {"name": "VSE", "path": "lspverif/vse.py", "serves_properties": ["C01", "C02", "C03", "C10", "C11", "C13", "C14", "C15"], "kind_free_text": "deviation-bounded exhaustive value-space explorer over the metamodel grammar"},
    {"name": "BISIM", "path": "lspverif/img_py.py", "serves_properties": ["C04", "C05", "C07", "C08", "C09", "C17"], "kind_free_text": "product-graph exploration metamodel x generated artefact, simulation checked in both directions"},
    {"name": "HIST", "path": "lspverif/hist.py", "serves_properties": ["C16", "C18"], "kind_free_text": "exhaustive enumeration of event histories on the real generator entry points with nondeterminism seams"},
    {"name": "SCHED", "path": "lspverif/sched.py", "serves_properties": ["C19"], "kind_free_text": "stateless schedule explorer for real Python threads (settrace + semaphore baton), preemption-bounded"},
    {"name": "EVO", "path": "lspverif/evo.py", "serves_properties": ["C06"], "kind_free_text": "breadth-first exploration of metamodel edit sequences; composes the other engines as state invariant"},
    {"name": "GRID", "path": "lspverif/props/c12.py", "serves_properties": ["C12", "C20"], "kind_free_text": "exhaustive boundary-grid enumeration on the real classes and validators"},
]

if __name__ == "__main__":
    main()
