#!/bin/bash
# usage: tools/mk_upstream_tree.sh <scratch worktree path>
# Builds, outside /repo and /verif, a tree that looks like the next upstream metamodel bump: generator/lsp.json evolved by a
# chain of schema-valid edits (new structures, enum, request/notification without typeName, both marks, a removed optional
# property, a new property on a base structure), types.py / lib.rs / tests/rust/src/main.rs regenerated from it.  Every
# property holds on such a tree; run the checks against it with LSPVERIF_REPO=<path> ./check <ID> (all must stay silent).
set -eu
WT="$1"
git -C /repo worktree add -q --detach "$WT" HEAD
PYTHONPATH=/verif /venv/bin/python - "$WT" <<'PY'
import sys, json
from lspverif import evo, docs
wt = sys.argv[1]
d = docs.committed()
def pick(ops, pred):
    for label, cls, nd in ops:
        if pred(label):
            return nd
    raise SystemExit("no such edit")
for op, pred in [(evo.e1_new_structure, lambda l: True), (evo.e4_enums, lambda l: True),
                 (evo.e5_messages, lambda l: "no typeName, params ref, result T|null" in l),
                 (evo.e5_messages, lambda l: "notification no typeName, no params" in l),
                 (evo.e6_marks, lambda l: "proposed AND deprecated" in l), (evo.e7_removal, lambda l: True),
                 (evo.e3_inheritance, lambda l: True)]:
    d = pick(op(d, False), pred)
for s in d["structures"]:
    if s["name"] == "TextDocumentPositionParams":
        s["properties"].append({"name": "upstreamHint", "type": {"kind": "base", "name": "string"}, "optional": True, "documentation": "A hint added upstream."})
d["metaData"]["version"] = "3.18.1"
# the checks' own edit alphabet uses Verif*/verif* names: an upstream tree must not collide with it
txt = json.dumps(d, indent=2).replace("Verif", "Upstream").replace("verif", "upstream")
open(wt + "/generator/lsp.json", "w").write(txt)
PY
T=$(mktemp -d)
(cd "$WT" && PYTHONPATH="$WT" /venv/bin/python -m generator --plugin python --output-dir packages/python --test-dir "$T" >/dev/null 2>&1)
(cd "$WT" && PYTHONPATH="$WT" /venv/bin/python -m generator --plugin rust --output-dir packages/rust --test-dir tests/rust >/dev/null 2>&1)
rustfmt --edition 2021 "$WT/packages/rust/lsprotocol/src/lib.rs" "$WT/tests/rust/src/main.rs"
rm -rf "$T"
(cd "$WT" && /venv/bin/python -m pytest -q -p no:cacheprovider | tail -1)
echo "built $WT  (remove with: git -C /repo worktree remove --force $WT)"
