#!/usr/bin/env python3
"""Runs tools/eval_benign.sh for a list of seeded changes, a few at a time.
usage: tools/campaign.py <jobs> name=dir:checks ...      (checks comma separated; empty = all)"""
import subprocess, sys, concurrent.futures as cf, os
jobs = int(sys.argv[1])
items = []
for a in sys.argv[2:]:
    name, rest = a.split("=", 1)
    d, _, checks = rest.partition(":")
    items.append((name, d, checks.replace(",", " ")))
def run(it):
    name, d, checks = it
    r = subprocess.run(["/verif/tools/eval_benign.sh", d, name] + checks.split(), capture_output=True, text=True)
    return name, r.stdout
with cf.ThreadPoolExecutor(jobs) as ex:
    for name, out in ex.map(run, items):
        print("=====", name)
        print(out)
        sys.stdout.flush()
