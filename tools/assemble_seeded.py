#!/usr/bin/env python3
"""Stores confirmed seeded changes under seeded/<name>/ from tools/campaign.py logs.
usage: tools/assemble_seeded.py <origin text> <log> [<log> ...] -- name=dir ...
Later logs override earlier ones per (name, check)."""
import json, os, re, shutil, sys
argv = sys.argv[1:]
origin = argv[0]
i = argv.index("--")
logs, items = argv[1:i], argv[i + 1:]
res = {}
for lg in logs:
    cur = None
    for line in open(lg, encoding="utf-8"):
        line = line.rstrip("\n")
        m = re.match(r"^===== (\S+)$", line)
        if m:
            cur = res.setdefault(m.group(1), {"checks": {}})
            continue
        if cur is None:
            continue
        if line.startswith("demo_clean_exit="):
            cur["demo_clean"] = int(line.split("=")[1])
        elif line.startswith("demo_mutant_exit="):
            cur["demo_mut"] = int(line.split("=")[1])
        elif line.startswith("tests: "):
            cur["tests"] = line[7:]
        else:
            m = re.match(r"^(C\d\d) exit=(\d+) violations=(\d+)\s*(.*)$", line)
            if m:
                cur["checks"][m.group(1)] = (int(m.group(2)), int(m.group(3)), m.group(4).strip())
root = os.path.join(os.path.dirname(os.path.abspath(__file__)), "..", "seeded")
for it in items:
    name, d = it.split("=", 1)
    r = res[name]
    assert r.get("demo_clean") == 0 and r.get("demo_mut") not in (0, None) and "passed" in r.get("tests", "") and "failed" not in r["tests"], (name, r)
    dst = os.path.join(root, name)
    os.makedirs(dst, exist_ok=True)
    shutil.copy(os.path.join(d, "patch.diff"), os.path.join(dst, "patch.diff"))
    shutil.copy(os.path.join(d, "demo.py"), os.path.join(dst, "demo.py"))
    meta = json.load(open(os.path.join(d, "meta.json")))
    meta["breaks_property"] = meta.get("property", name.split("-")[1])
    meta["origin"] = origin
    meta["confirmed_by_me"] = {"scratch_worktree": "git worktree of /repo HEAD under /tmp/mv (removed afterwards)", "test_suite_with_change": r["tests"],
                               "demo_exit_clean_tree": r["demo_clean"], "demo_exit_with_change": r["demo_mut"],
                               "command": "tools/eval_mutant.sh seeded/%s %s <checks>" % (name, name)}
    det = sorted(c for c, (rc, nv, _) in r["checks"].items() if rc == 1 and nv > 0)
    sil = sorted(c for c, (rc, nv, _) in r["checks"].items() if rc == 0)
    odd = sorted(c for c, (rc, nv, _) in r["checks"].items() if rc not in (0, 1) or (rc == 1 and nv == 0))
    meta["checks_run_quick_tier"] = {"detected_by": det, "silent": sil, "first_violation": {c: r["checks"][c][2] for c in det}}
    if odd:
        meta["checks_run_quick_tier"]["other_exit"] = odd
    json.dump(meta, open(os.path.join(dst, "meta.json"), "w"), indent=1)
    print(name, "detected_by", det, "silent", sil, odd)
