#!/usr/bin/env python3
"""Prints the markdown table 'which check catches which seeded change' from seeded/*/meta.json."""
import json, os, glob
rows = []
for d in sorted(glob.glob(os.path.join(os.path.dirname(__file__), "..", "seeded", "*"))):
    mp = os.path.join(d, "meta.json")
    if not os.path.exists(mp):
        continue
    m = json.load(open(mp))
    name = os.path.basename(d)
    c = m.get("checks_run_quick_tier", {})
    summ = " ".join(str(m.get("summary", "")).split())
    if len(summ) > 150:
        summ = summ[:147] + "..."
    needs = " ".join(str(m.get("needs", "")).split())
    if len(needs) > 110:
        needs = needs[:107] + "..."
    rows.append("| %s | %s | %s | %s | %s |" % (name, summ.replace("|", "/"), needs.replace("|", "/"), ", ".join(c.get("detected_by", [])) or "-", ", ".join(c.get("silent", [])) or "-"))
print("| seeded change | what was changed | needs | caught by (quick tier) | run but silent |")
print("|---|---|---|---|---|")
print("\n".join(rows))
