#!/bin/bash
# usage: tools/run_all.sh quick|thorough [ids...]   - runs the checks one after another, prints one line each
cd "$(dirname "$0")/.."
TIER="${1:-quick}"; shift
IDS="${*:-C01 C02 C03 C04 C05 C06 C07 C08 C09 C10 C11 C12 C13 C14 C15 C16 C17 C18 C19 C20}"
rc=0
for c in $IDS; do
  out=$(./check $c --tier $TIER 2>&1); r=$?
  echo "$c exit=$r $(echo "$out" | tail -1)"
  if [ $r -ne 0 ]; then rc=1; echo "$out" | grep -A1 '^VIOLATION' | head -6; fi
done
exit $rc
